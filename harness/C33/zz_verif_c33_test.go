package PVM

// C33: inner PVM machines during refinement (machine / pages / poke / peek /
// invoke / expunge), model-based: the inner machine set is modelled on the
// reference PVM (refpvm) and compared after every call.

import (
	"fmt"
	"sort"
	"testing"

	kit "github.com/New-JAMneration/JAM-Protocol/internal/verifkit"
	ref "github.com/New-JAMneration/JAM-Protocol/internal/verifref/refpvm"
	"pgregory.net/rapid"
)

type c33Op struct {
	Kind int        `json:"k"` // 0 machine 1 pages 2 poke 3 peek 4 invoke 5 expunge
	N    uint64     `json:"n"` // machine id
	A    uint64     `json:"a"`
	B    uint64     `json:"b"`
	C    uint64     `json:"c"`
	Blob []byte     `json:"blob,omitempty"` // machine: program blob written to outer memory first
	Gas  uint64     `json:"gas,omitempty"`  // invoke
	Regs [13]uint64 `json:"regs,omitempty"` // invoke
}

type c33Input struct {
	Ops []c33Op `json:"ops"`
}

const (
	c33BlobAddr  = 32 * ZP // outer RW pages 32..35
	c33BlockAddr = 34 * ZP
	c33ROAddr    = 40 * ZP // outer read-only page
	c33BadAddr   = 50 * ZP // outer unmapped
)

func c33OuterPages() []vpPage {
	return []vpPage{{Page: 32, Access: 2, Fill: 0}, {Page: 33, Access: 2, Fill: 7}, {Page: 34, Access: 2, Fill: 0}, {Page: 35, Access: 2, Fill: 9},
		{Page: 40, Access: 1, Fill: 11}}
}

func c33GenInnerProgram(rt *rapid.T) []byte {
	switch rapid.IntRange(0, 9).Draw(rt, "pk") {
	case 0:
		return rapid.SliceOfN(rapid.Byte(), 0, 20).Draw(rt, "rawblob") // mostly invalid
	case 1:
		code, k, jt, z := vpGenProgram(rt, false, 6)
		b := vpAssembleGen(rt, code, k, jt, z)
		if len(b) > 1 {
			b = b[:rapid.IntRange(1, len(b)-1).Draw(rt, "trunc")]
		}
		return b
	case 2, 3:
		// a store/load program on page 16: store_imm_u8 [0x10000+3] = 0x5A ; load_u8 r3 <- [0x10000+3] ; ecalli 7 ; add ; trap
		code := []byte{30, 4, 0x03, 0x00, 0x01, 0x00, 0x5A, 52, 3, 0x03, 0x00, 0x01, 0x00, 10, 7, 200, 0x43, 5, 0}
		k := []bool{true, false, false, false, false, false, false, true, false, false, false, false, false, true, false, true, false, false, true}
		return vpAssemble(code, k, nil, 0)
	default:
		code, k, jt, z := vpGenProgram(rt, false, 8)
		return vpAssembleGen(rt, code, k, jt, z)
	}
}

func c33Gen(rt *rapid.T) c33Input {
	var in c33Input
	nid := func(label string) uint64 {
		return rapid.SampledFrom([]uint64{0, 0, 0, 0, 0, 0, 0, 0, 1, 1, 1, 2, 3, 7, 1 << 32, ^uint64(0)}).Draw(rt, label)
	}
	innerAddr := func(label string) uint64 {
		p := rapid.SampledFrom([]uint64{15, 16, 16, 17, 18, 32, 0xFFFFF}).Draw(rt, label+"p")
		off := rapid.SampledFrom([]int64{0, 0, 1, 3, 100, ZP - 4, ZP - 1, -1}).Draw(rt, label+"o")
		return uint64(int64(p*ZP) + off)
	}
	outerAddr := func(label string, write bool) uint64 {
		c := []uint64{c33BlobAddr + 2*ZP - 8, c33BlobAddr + ZP, c33BlockAddr + 200, c33BlockAddr + ZP, c33ROAddr, c33ROAddr - 4, c33BadAddr, 36*ZP - 4, 0, 1 << 32, ^uint64(0) - 3}
		return rapid.SampledFrom(c).Draw(rt, label)
	}
	size := func(label string) uint64 {
		return rapid.SampledFrom([]uint64{0, 1, 4, 8, 100, ZP, ZP + 1, 2 * ZP, 1 << 32, ^uint64(0)}).Draw(rt, label)
	}
	mk := func(kind int) c33Op {
		op := c33Op{Kind: kind}
		switch kind {
		case 0:
			op.Blob = c33GenInnerProgram(rt)
			op.A = rapid.SampledFrom([]uint64{c33BlobAddr, c33BlobAddr, c33BlobAddr, c33BadAddr, c33ROAddr}).Draw(rt, "po")
			op.B = uint64(len(op.Blob))
			if rapid.IntRange(0, 9).Draw(rt, "pzlie") == 0 {
				op.B = size("pz")
			}
			op.C = rapid.SampledFrom([]uint64{0, 0, 0, 1, 5, 13, 1000, 1 << 32}).Draw(rt, "ipc")
		case 1:
			op.N = nid("n")
			op.A = rapid.SampledFrom([]uint64{16, 16, 16, 16, 16, 16, 17, 17, 15, 0, 32, 0xFFFFE, 0xFFFFF, 0x100000, 1 << 32, ^uint64(0)}).Draw(rt, "p")
			op.B = rapid.SampledFrom([]uint64{0, 1, 1, 1, 1, 2, 2, 3, 17, 0xFFFFF, 1 << 20, ^uint64(0)}).Draw(rt, "c")
			op.C = rapid.SampledFrom([]uint64{0, 0, 1, 1, 2, 2, 2, 3, 3, 3, 4, 4, 4, 5, 255, 1 << 32}).Draw(rt, "r")
		case 2: // poke(n, s outer, o inner, z)
			op.N = nid("n")
			op.A = outerAddr("s", false)
			op.B = innerAddr("o")
			op.C = size("z")
			if rapid.IntRange(0, 2).Draw(rt, "pokeeasy") != 0 {
				op.A = c33BlobAddr + ZP + uint64(rapid.IntRange(0, 64).Draw(rt, "pokes"))
				op.B = 16*ZP + uint64(rapid.IntRange(0, 16).Draw(rt, "pokeo"))
				op.C = uint64(rapid.IntRange(1, 32).Draw(rt, "pokez"))
			}
		case 3: // peek(n, o outer, s inner, z)
			op.N = nid("n")
			op.A = outerAddr("o", true)
			op.B = innerAddr("s")
			op.C = size("z")
			if rapid.IntRange(0, 2).Draw(rt, "peekeasy") != 0 {
				op.A = c33BlockAddr + 512
				op.B = 16*ZP + uint64(rapid.IntRange(0, 16).Draw(rt, "peeko"))
				op.C = uint64(rapid.IntRange(1, 32).Draw(rt, "peekz"))
			}
		case 4:
			op.N = nid("n")
			op.A = rapid.SampledFrom([]uint64{c33BlockAddr, c33BlockAddr, c33BlockAddr, c33BlockAddr + ZP - 50, 36*ZP - 100, c33ROAddr, c33BadAddr}).Draw(rt, "blk")
			op.Gas = rapid.SampledFrom([]uint64{0, 1, 2, 3, 5, 10, 50, 1000, 1 << 40}).Draw(rt, "igas")
			for i := range op.Regs {
				if rapid.IntRange(0, 2).Draw(rt, "rk") == 0 {
					op.Regs[i] = innerAddr("ir")
				} else {
					op.Regs[i] = vpGenU64(rt, "irv")
				}
			}
		case 5:
			op.N = nid("n")
		}
		return op
	}
	if rapid.IntRange(0, 3).Draw(rt, "scenario") != 0 {
		// guided prefix: machine -> pages -> poke -> invoke on machine 0
		m := mk(0)
		m.A, m.B = c33BlobAddr, uint64(len(m.Blob))
		in.Ops = append(in.Ops, m)
		pg := mk(1)
		pg.N, pg.A, pg.B, pg.C = 0, 16, uint64(rapid.IntRange(1, 2).Draw(rt, "pc")), uint64(rapid.SampledFrom([]int{2, 2, 1}).Draw(rt, "pr"))
		in.Ops = append(in.Ops, pg)
		pk := mk(2)
		pk.N, pk.A, pk.B, pk.C = 0, c33BlobAddr+ZP, 16*ZP+uint64(rapid.IntRange(0, 8).Draw(rt, "pko")), uint64(rapid.IntRange(1, 16).Draw(rt, "pkz"))
		in.Ops = append(in.Ops, pk)
		iv := mk(4)
		iv.N, iv.A = 0, c33BlockAddr
		iv.Gas = rapid.SampledFrom([]uint64{1, 2, 3, 4, 5, 100}).Draw(rt, "ivg")
		in.Ops = append(in.Ops, iv)
		// what the first invocation left in the machine (its counter above all) is looked at again:
		// a second invoke of the same machine and/or expunge, which returns the counter
		switch rapid.IntRange(0, 3).Draw(rt, "after_invoke") {
		case 0:
			ex := mk(5)
			ex.N = 0
			in.Ops = append(in.Ops, ex)
		case 1, 2:
			iv2 := mk(4)
			iv2.N, iv2.A = 0, c33BlockAddr
			iv2.Gas = rapid.SampledFrom([]uint64{1, 2, 3, 100}).Draw(rt, "ivg2")
			ex := mk(5)
			ex.N = 0
			in.Ops = append(in.Ops, iv2, ex)
		}
	}
	n := rapid.IntRange(1, 24).Draw(rt, "nops")
	for i := 0; i < n; i++ {
		in.Ops = append(in.Ops, mk(rapid.SampledFrom([]int{0, 1, 1, 2, 3, 3, 4, 4, 4, 5}).Draw(rt, "kind")))
	}
	return in
}

// ---- model ----

type c33ModelMachine struct {
	prog *ref.Program
	mem  ref.Memory
	pc   uint64
}

func c33Readable(m ref.Memory, a, z uint64, write bool) bool {
	if z == 0 {
		return true
	}
	if z > 1<<32 || a > (1<<32)-z {
		return false
	}
	for p := a / ZP; p <= (a+z-1)/ZP; p++ {
		pg, ok := m[uint32(p)]
		if !ok || pg.Access == ref.AccNone || (write && pg.Access != ref.AccW) {
			return false
		}
	}
	return true
}

func c33Read(m ref.Memory, a, z uint64) []byte {
	out := make([]byte, z)
	for i := uint64(0); i < z; i++ {
		out[i] = m[uint32((a+i)/ZP)].Data[(a+i)%ZP]
	}
	return out
}

func c33Write(m ref.Memory, a uint64, b []byte) {
	for i, x := range b {
		m[uint32((a+uint64(i))/ZP)].Data[(a+uint64(i))%ZP] = x
	}
}

func c33LE64(v uint64) []byte {
	b := make([]byte, 8)
	for i := range b {
		b[i] = byte(v >> (8 * uint(i)))
	}
	return b
}

func c33MemEq(impl *Memory, model ref.Memory) string {
	return vpMemDiff(vpImplMemObs(impl), vpRefMemObs(model))
}

func c33Check(c *kit.Case, in c33Input) {
	if len(in.Ops) == 0 || len(in.Ops) > 64 {
		return
	}
	outerImpl := vpImplMemory(c33OuterPages())
	outerModel := vpRefMemory(c33OuterPages())
	add := HostCallArgs{}
	add.IntegratedPVMMap = IntegratedPVMMap{}
	add.Program = &Program{}
	machines := map[uint64]*c33ModelMachine{}
	gas := Gas(1 << 40)
	sawMachine, sawPages, sawPoke, sawInvoke := map[uint64]bool{}, map[uint64]bool{}, map[uint64]bool{}, false

	for oi, op := range in.Ops {
		var regs Registers
		for i := range regs {
			regs[i] = 0xA000 + uint64(i) // canary values: calls may only touch ω7 (ω8 for invoke)
		}
		var fn Omega
		name := ""
		// expected outcome
		wantPanic := false
		var want7, want8 uint64
		want8set := false
		switch op.Kind {
		case 0:
			name = "machine"
			fn = machine
			if len(op.Blob) > 2*ZP {
				return
			}
			// place the blob in outer memory on both sides
			outerImpl.Write(c33BlobAddr, op.Blob)
			c33Write(outerModel, c33BlobAddr, op.Blob)
			regs[7], regs[8], regs[9] = op.A, op.B, op.C
			if !c33Readable(outerModel, op.A, op.B, false) {
				wantPanic = true
				break
			}
			p := c33Read(outerModel, op.A, op.B)
			prog, status := ref.Deblob(p)
			if status == 2 {
				c.Class("out_of_domain_noncanonical_blob")
				return
			}
			if status == 1 {
				want7 = HUH
				break
			}
			id := uint64(0)
			for machines[id] != nil {
				id++
			}
			want7 = id
			machines[id] = &c33ModelMachine{prog: prog, mem: ref.Memory{}, pc: op.C & 0xFFFFFFFF}
			sawMachine[id] = true
			if op.C > 0xFFFFFFFF {
				// counter register above 32 bits: the GP takes ω9 as the counter; values beyond N_R are outside the domain
				c.Class("out_of_domain_counter_above_2^32")
				return
			}
		case 1:
			name = "pages"
			fn = pages
			regs[7], regs[8], regs[9], regs[10] = op.N, op.A, op.B, op.C
			m := machines[op.N]
			p, cn, r := op.A, op.B, op.C
			switch {
			case m == nil:
				want7 = WHO
			case r > 4 || p < 16 || p >= 1<<20 || cn >= 1<<20 || p+cn >= 1<<20:
				want7 = HUH
			default:
				bad := false
				if r > 2 {
					for i := p; i < p+cn; i++ {
						if pg, ok := m.mem[uint32(i)]; !ok || pg.Access == ref.AccNone {
							bad = true
						}
					}
				}
				if bad {
					want7 = HUH
					break
				}
				want7 = OK
				if cn > 64 {
					c.Class("out_of_domain_huge_page_range") // legal but allocates up to 4 GiB; not judged here
					return
				}
				for i := p; i < p+cn; i++ {
					pg, ok := m.mem[uint32(i)]
					if !ok || r < 3 {
						pg = &ref.Page{Data: make([]byte, ZP)}
						m.mem[uint32(i)] = pg
					}
					pg.Access = []ref.Access{ref.AccNone, ref.AccR, ref.AccW, ref.AccR, ref.AccW}[r]
				}
				if cn > 0 {
					sawPages[op.N] = true
				}
			}
		case 2:
			name = "poke"
			fn = poke
			regs[7], regs[8], regs[9], regs[10] = op.N, op.A, op.B, op.C
			m := machines[op.N]
			switch {
			case !c33Readable(outerModel, op.A, op.C, false):
				wantPanic = true
			case m == nil:
				want7 = WHO
			case !c33Readable(m.mem, op.B, op.C, true):
				want7 = OOB
			default:
				want7 = OK
				c33Write(m.mem, op.B, c33Read(outerModel, op.A, op.C))
				if op.C > 0 {
					sawPoke[op.N] = true
				}
			}
		case 3:
			name = "peek"
			fn = peek
			regs[7], regs[8], regs[9], regs[10] = op.N, op.A, op.B, op.C
			m := machines[op.N]
			switch {
			case !c33Readable(outerModel, op.A, op.C, true):
				wantPanic = true
			case m == nil:
				want7 = WHO
			case !c33Readable(m.mem, op.B, op.C, false):
				want7 = OOB
			default:
				want7 = OK
				c33Write(outerModel, op.A, c33Read(m.mem, op.B, op.C))
			}
		case 4:
			name = "invoke"
			fn = invoke
			regs[7], regs[8] = op.N, op.A
			if op.Gas >= 1<<63 {
				return
			}
			// write the gas/register block where it is writable
			var blk []byte
			blk = append(blk, c33LE64(op.Gas)...)
			for _, r := range op.Regs {
				blk = append(blk, c33LE64(r)...)
			}
			if c33Readable(outerModel, op.A, 112, true) {
				outerImpl.Write(op.A, blk)
				c33Write(outerModel, op.A, blk)
			}
			m := machines[op.N]
			switch {
			case !c33Readable(outerModel, op.A, 112, true):
				wantPanic = true
			case m == nil:
				want7 = WHO
			default:
				rm := &ref.Machine{P: m.prog, PC: m.pc, Gas: int64(op.Gas), Regs: op.Regs, Mem: m.mem}
				if int(m.pc) < len(m.prog.Code) && !m.prog.K[m.pc] {
					c.Class("out_of_domain_inner_pc_inside_instruction")
					return
				}
				e := rm.Run(1 << 20)
				if e.Kind == ref.Unsupported || e.Kind == ref.Continue || rm.Flags["pc_not_instr_start"] {
					c.Class("out_of_domain_inner_run")
					return
				}
				want8set = true
				switch e.Kind {
				case ref.Halt:
					want7, want8set = INNERHALT, false
					m.pc = 0 // GP A.1: a halt or panic yields counter 0, and invoke stores what Ψ yields
				case ref.Panic:
					want7, want8set = INNERPANIC, false
					m.pc = 0
				case ref.OOG:
					want7, want8set = INNEROOG, false
					m.pc = rm.PC
				case ref.Fault:
					want7, want8 = INNERFAULT, e.Arg
					m.pc = rm.PC
				case ref.Host:
					want7, want8 = INNERHOST, e.Arg
					m.pc = rm.PC
				}
				var out []byte
				out = append(out, c33LE64(uint64(rm.Gas))...)
				for _, r := range rm.Regs {
					out = append(out, c33LE64(r)...)
				}
				c33Write(outerModel, op.A, out)
				c.Class("inner_exit_" + e.Kind.String())
				sawInvoke = sawInvoke || (sawMachine[op.N] && sawPages[op.N] && sawPoke[op.N] && rm.NonTrap > 0)
				// remember fault window for the tolerant address comparison
				if e.Kind == ref.Fault {
					want8 = rm.FaultStart/ZP*ZP<<1 | 1 // marker replaced below
					want8 = e.Arg
					c33FaultLo, c33FaultHi = rm.FaultStart/ZP*ZP, rm.FaultStart+uint64(rm.FaultLen)
				}
			}
		case 5:
			name = "expunge"
			fn = expunge
			regs[7] = op.N
			m := machines[op.N]
			if m == nil {
				want7 = WHO
			} else {
				want7 = m.pc
				delete(machines, op.N)
			}
		default:
			return
		}
		c.Class(name)
		gasBefore := gas
		before := regs
		var out OmegaOutput
		func() {
			defer func() {
				if r := recover(); r != nil {
					c.Failf("op %d %s%v: Go runtime panic: %v", oi, name, []uint64{op.N, op.A, op.B, op.C}, r)
				}
			}()
			out = fn(OmegaInput{VM: &VMState{Registers: &regs, Memory: outerImpl, Gas: &gas}, Addition: add, HostCalls: RefineOmegas})
		}()
		add = out.Addition
		desc := fmt.Sprintf("op %d %s(n=%#x a=%#x b=%#x c=%#x)", oi, name, op.N, op.A, op.B, op.C)
		if gasBefore-gas != 10 {
			c.Failf("%s charged %d gas, want 10", desc, gasBefore-gas)
		}
		if wantPanic {
			c.Class("outcome_panic")
			if out.ExitReason != ExitPanic {
				c.Failf("%s: expected panic (unreadable/unwritable range in the caller's memory), got exit %v ω7=%#x", desc, out.ExitReason, regs[7])
			}
		} else {
			if out.ExitReason != ExitContinue {
				c.Failf("%s: expected continue with ω7=%#x, got exit %v ω7=%#x", desc, want7, out.ExitReason, regs[7])
			}
			switch want7 {
			case WHO:
				c.Class("outcome_WHO")
			case HUH:
				c.Class("outcome_HUH")
			case OOB:
				c.Class("outcome_OOB")
			default:
				c.Class("outcome_ok")
			}
			if regs[7] != want7 {
				c.Failf("%s: ω7 = %#x, want %#x", desc, regs[7], want7)
			}
			if want8set {
				ok := regs[8] == want8
				if want7 == INNERFAULT {
					ok = regs[8] >= c33FaultLo && regs[8] < c33FaultHi
				}
				if !ok {
					c.Failf("%s: ω8 = %#x, want %#x", desc, regs[8], want8)
				}
			} else if regs[8] != before[8] {
				c.Failf("%s: ω8 changed %#x -> %#x", desc, before[8], regs[8])
			}
			for i := range regs {
				if i != 7 && i != 8 && regs[i] != before[i] {
					c.Failf("%s: register %d changed %#x -> %#x", desc, i, before[i], regs[i])
				}
			}
		}
		// state comparison
		if d := c33MemEq(outerImpl, outerModel); d != "" {
			if op.Kind == 4 && c33Readable(outerModel, op.A, 112, false) {
				d += fmt.Sprintf("\nblock impl  %x\nblock model %x", []byte(outerImpl.Read(op.A, 112)), c33Read(outerModel, op.A, 112))
			}
			c.Failf("%s: outer memory differs from the model: %s", desc, d)
		}
		ids := []uint64{}
		for id := range add.IntegratedPVMMap {
			ids = append(ids, id)
		}
		sort.Slice(ids, func(i, j int) bool { return ids[i] < ids[j] })
		if len(ids) != len(machines) {
			c.Failf("%s: implementation holds machines %v, model %d machines", desc, ids, len(machines))
		}
		for _, id := range ids {
			mm := machines[id]
			if mm == nil {
				c.Failf("%s: implementation holds machine %d unknown to the model", desc, id)
			}
			im := add.IntegratedPVMMap[id]
			if d := c33MemEq(&im.Memory, mm.mem); d != "" {
				c.Failf("%s: inner machine %d memory differs from the model: %s", desc, id, d)
			}
			if uint64(im.PC) != mm.pc {
				c.Failf("%s: inner machine %d counter %d, model %d", desc, id, im.PC, mm.pc)
			}
		}
	}
	if sawInvoke {
		c.NonTrivial()
	}
}

var c33FaultLo, c33FaultHi uint64

func TestVerif_C33(t *testing.T) {
	s := kit.Begin(t, "C33")
	defer s.Finish()
	s.EnableSentinel()
	kit.Run(s, "inner_machine_call_sequences", kit.N{Quick: 24000, Thorough: 300000}, c33Gen, c33Check)
}

// FuzzVerif_C33: native coverage-guided fuzzing of inner-machine call sequences (thorough tier).
func FuzzVerif_C33(f *testing.F) {
	kit.Fuzz(f, "C33", "inner_machine_call_sequences", c33Gen, c33Check)
}
