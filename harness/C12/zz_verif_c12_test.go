package fuzz

// C12: the Gray Paper variable-length natural encoding (GP C.6) is the same
// canonical bijection in all five implementations of the node:
//   protocol codec   types.Encoder.EncodeUint / EncodeInteger,
//                    types.Decoder.DecodeUint / DecodeInteger (decodeUintFromReader)
//   legacy           utilities.SerializeU64 / DeserializeU64
//   PVM reader       PVM.ReadUintVariable (decode only)
//   telemetry        telemetry.EncodeNatural / Decoder.ReadNatural
//   fuzz protocol    compactEncode / compactDecode (this package, unexported)
//
// Oracle: an independent encoder/parser written from GP C.6:
//   E(x) = [0]                                              if x = 0
//        = [2^8 - 2^(8-l) + floor(x / 2^(8l))] ++ E_l(x mod 2^(8l))
//                                      if 2^(7l) <= x < 2^(7(l+1)), l in 0..7
//        = [2^8 - 1] ++ E_8(x)                              otherwise
// A byte string is classified from its first byte alone (l = number of leading
// one bits, 1+l bytes needed): EMPTY, TRUNCATED (fewer than 1+l bytes),
// NONMINIMAL (the 1+l byte head is not E(value of the head)), or VALID
// (head == E(value)); bytes after the head are "trailing" and are allowed: all
// six decoding entry points are prefix/stream decoders whose callers hand them
// the rest of a longer buffer, and the property does not speak about trailing
// bytes. Where an API reports the number of consumed bytes it must be 1+l.

import (
	"bytes"
	"fmt"
	"testing"

	"github.com/New-JAMneration/JAM-Protocol/PVM"
	"github.com/New-JAMneration/JAM-Protocol/internal/telemetry"
	"github.com/New-JAMneration/JAM-Protocol/internal/types"
	"github.com/New-JAMneration/JAM-Protocol/internal/utilities"
	kit "github.com/New-JAMneration/JAM-Protocol/internal/verifkit"
	"pgregory.net/rapid"
)

// ---------------------------------------------------------------- reference

// c12RefL: the l of GP C.6 for x (0..7), or 8 for the 0xFF form.
func c12RefL(x uint64) int {
	l := 0
	for l < 8 && (x>>(7*uint(l+1))) != 0 {
		l++
	}
	return l
}

func c12RefEnc(x uint64) []byte {
	l := c12RefL(x)
	out := make([]byte, 0, 9)
	if l == 8 {
		out = append(out, 0xFF)
		for i := 0; i < 8; i++ {
			out = append(out, byte(x>>(8*uint(i))))
		}
		return out
	}
	// 2^8 - 2^(8-l) is the byte with l leading one bits
	lead := 0x100 - (0x100 >> uint(l))
	out = append(out, byte(lead+int(x>>(8*uint(l)))))
	for i := 0; i < l; i++ {
		out = append(out, byte(x>>(8*uint(i))))
	}
	return out
}

const (
	c12Empty = iota
	c12Truncated
	c12NonMinimal
	c12Valid
)

type c12Parse struct {
	Status int
	L      int    // leading ones of the first byte
	Need   int    // 1+L
	Val    uint64 // value of the head (Valid/NonMinimal)
}

func c12RefParse(s []byte) c12Parse {
	if len(s) == 0 {
		return c12Parse{Status: c12Empty}
	}
	l := 0
	for l < 8 && s[0]&(0x80>>uint(l)) != 0 {
		l++
	}
	p := c12Parse{L: l, Need: l + 1}
	if len(s) < p.Need {
		p.Status = c12Truncated
		return p
	}
	var v uint64
	for i := 0; i < l; i++ {
		v |= uint64(s[1+i]) << (8 * uint(i))
	}
	if l < 8 {
		hi := uint64(s[0]) & (0xFF >> uint(l+1)) // the 7-l payload bits of the first byte
		v |= hi << (8 * uint(l))
	}
	p.Val = v
	if bytes.Equal(c12RefEnc(v), s[:p.Need]) {
		p.Status = c12Valid
	} else {
		p.Status = c12NonMinimal
	}
	return p
}

// ------------------------------------------------- implementations under test

type c12Int struct{ V uint64 }

func (x *c12Int) Decode(d *types.Decoder) error {
	v, err := d.DecodeInteger()
	x.V = v
	return err
}
func (x *c12Int) Encode(e *types.Encoder) error { return e.EncodeInteger(x.V) }

type c12Len struct{ V uint64 }

func (x *c12Len) Decode(d *types.Decoder) error {
	v, err := d.DecodeLength()
	x.V = v
	return err
}
func (x *c12Len) Encode(e *types.Encoder) error { return e.EncodeLength(x.V) }

type c12Dec struct {
	name string
	// returns ok, value, consumed (-1 when the API does not report it)
	f func(s []byte) (bool, uint64, int)
}

var c12Decoders = []c12Dec{
	{"types.Decoder.DecodeUint", func(s []byte) (bool, uint64, int) {
		v, err := types.NewDecoder().DecodeUint(s)
		return err == nil, v, -1
	}},
	{"types.Decoder.DecodeInteger(decodeUintFromReader)", func(s []byte) (bool, uint64, int) {
		var x c12Int
		n, err := types.NewDecoder().DecodeWithConsumed(s, &x)
		return err == nil, x.V, n
	}},
	// (types.Decoder.DecodeLength was an entry point here until the repair of KF-C14-1 gave it an
	// additional, documented rule — a length prefix larger than the remaining input is rejected —
	// which is not part of the natural-number encoding. The underlying reader it shares with
	// DecodeInteger (decodeUintFromReader) stays covered by the entry above; the encoder side
	// EncodeLength stays covered below.)
	{"utilities.DeserializeU64", func(s []byte) (bool, uint64, int) {
		v, err := utilities.DeserializeU64(types.ByteSequence(s))
		return err == nil, uint64(v), -1
	}},
	{"PVM.ReadUintVariable", func(s []byte) (bool, uint64, int) {
		v, n, ex := PVM.ReadUintVariable(s)
		return ex == PVM.ExitContinue, v, n
	}},
	{"telemetry.Decoder.ReadNatural", func(s []byte) (bool, uint64, int) {
		d := telemetry.NewDecoder(s)
		v, err := d.ReadNatural()
		return err == nil, v, d.Pos()
	}},
	{"fuzz.compactDecode", func(s []byte) (bool, uint64, int) {
		v, n := compactDecode(s)
		return n != 0, v, n
	}},
}

type c12Enc struct {
	name string
	f    func(v uint64) ([]byte, error)
}

var c12Encoders = []c12Enc{
	{"types.Encoder.EncodeUint", func(v uint64) ([]byte, error) { return types.NewEncoder().EncodeUint(v) }},
	{"types.Encoder.EncodeInteger", func(v uint64) ([]byte, error) { return types.NewEncoder().Encode(&c12Int{v}) }},
	{"types.Encoder.EncodeLength", func(v uint64) ([]byte, error) { return types.NewEncoder().Encode(&c12Len{v}) }},
	{"utilities.SerializeU64", func(v uint64) ([]byte, error) { return utilities.SerializeU64(types.U64(v)), nil }},
	{"telemetry.EncodeNatural", func(v uint64) ([]byte, error) { return telemetry.EncodeNatural(v), nil }},
	{"fuzz.compactEncode", func(v uint64) ([]byte, error) { return compactEncode(v), nil }},
}

// ------------------------------------------------------------------- checks

type c12StrIn struct {
	S []byte `json:"s"`
}

type c12ValIn struct {
	V     uint64 `json:"v"`
	Trail []byte `json:"trail"` // appended after the encoding for the consumed-length check
}

// c12CheckOne runs every decoder on s. known collects the known-finding ids hit.
func c12CheckOne(c *kit.Case, s []byte, known map[string]string) c12Parse {
	p := c12RefParse(s)
	snapshot := append([]byte(nil), s...)
	for _, d := range c12Decoders {
		ok, v, n := d.f(s)
		if !bytes.Equal(s, snapshot) {
			c.Failf("%s modified its input %x -> %x", d.name, snapshot, s)
		}
		switch p.Status {
		case c12Valid:
			if !ok {
				c.Failf("%s rejected %x whose %d-byte head is the canonical encoding of %d", d.name, s, p.Need, p.Val)
			}
			if v != p.Val {
				c.Failf("%s decoded %x to %d, reference %d", d.name, s, v, p.Val)
			}
			if n >= 0 && n != p.Need {
				c.Failf("%s consumed %d bytes of %x, the encoding is %d bytes", d.name, n, s, p.Need)
			}
		case c12Empty, c12Truncated:
			if ok {
				c.Failf("%s accepted the truncated/empty string %x (needs %d bytes) as %d (consumed %d)", d.name, s, p.Need, v, n)
			}
		case c12NonMinimal:
			if !ok {
				continue
			}
			// accepted a non-minimal encoding: a violation unless it is exactly one of
			// the two listed defects (narrow predicates: form + decoder + result).
			if p.L == 8 && p.Val < 1<<56 && v == p.Val && (n < 0 || n == 9) {
				known["KF-C12-1"] = fmt.Sprintf("%s accepts %x (0xFF form of %d < 2^56; canonical %x)", d.name, s[:9], p.Val, c12RefEnc(p.Val))
				continue
			}
			if d.name == "fuzz.compactDecode" && p.L >= 1 && p.L <= 7 && v == p.Val && n == p.Need {
				known["KF-C12-2"] = fmt.Sprintf("compactDecode accepts %x (l=%d form of %d; canonical %x)", s[:p.Need], p.L, p.Val, c12RefEnc(p.Val))
				continue
			}
			c.Failf("%s accepted the non-minimal encoding %x (l=%d form of %d, canonical %x) as %d (consumed %d)",
				d.name, s[:p.Need], p.L, p.Val, c12RefEnc(p.Val), v, n)
		}
	}
	return p
}

func c12FlushKnown(c *kit.Case, known map[string]string) {
	for _, id := range []string{"KF-C12-1", "KF-C12-2"} {
		if d, ok := known[id]; ok {
			c.KnownNote(id, d)
		}
	}
}

func c12ClassOf(p c12Parse) string {
	switch p.Status {
	case c12Empty:
		return "empty"
	case c12Truncated:
		return fmt.Sprintf("truncated_l%d", p.L)
	case c12NonMinimal:
		return fmt.Sprintf("nonminimal_l%d", p.L)
	}
	return fmt.Sprintf("valid_l%d", p.L)
}

func c12CheckString(c *kit.Case, in c12StrIn) {
	known := map[string]string{}
	p := c12CheckOne(c, in.S, known)
	c.Class(c12ClassOf(p))
	if p.Status == c12Valid && len(in.S) > p.Need {
		c.Class("valid_with_trailing")
	}
	if p.Status == c12NonMinimal || p.Status == c12Truncated {
		c.NonTrivial()
	}
	c12FlushKnown(c, known)
}

func c12CheckValue(c *kit.Case, in c12ValIn) {
	want := c12RefEnc(in.V)
	c.Class(fmt.Sprintf("value_len%d", len(want)))
	for _, e := range c12Encoders {
		got, err := e.f(in.V)
		if err != nil {
			c.Failf("%s(%d) failed: %v", e.name, in.V, err)
		}
		if !bytes.Equal(got, want) {
			c.Failf("%s(%d) = %x, reference (GP C.6) %x", e.name, in.V, got, want)
		}
		// the returned octets belong to the caller (callers append to them): overwriting them
		// within their whole capacity must not change what a later call returns
		full := got[:cap(got)]
		for i := range full {
			full[i] = 0xAA
		}
		for _, nb := range []uint64{in.V, in.V + 1, in.V + 2, in.V + 7, in.V - 1} {
			g2, err2 := e.f(nb)
			if w2 := c12RefEnc(nb); err2 != nil || !bytes.Equal(g2, w2) {
				c.Failf("%s(%d) = %x (err %v) after the octets returned for %d were overwritten by their owner; reference %x", e.name, nb, g2, err2, in.V, w2)
			}
		}
	}
	known := map[string]string{}
	// the encoding itself: must decode to V consuming all of it
	if p := c12CheckOne(c, want, known); p.Status != c12Valid || p.Val != in.V || p.Need != len(want) {
		c.Failf("harness self-check: reference parse of reference encoding %x of %d gives %+v", want, in.V, p)
	}
	// every proper prefix is truncated (or empty) and must be rejected
	for k := 0; k < len(want); k++ {
		if p := c12CheckOne(c, want[:k:k], known); p.Status != c12Truncated && p.Status != c12Empty {
			c.Failf("harness self-check: prefix %x of %x classified %d", want[:k], want, p.Status)
		}
	}
	// followed by trailing bytes: same value, consumed = encoding length
	if len(in.Trail) > 0 {
		s := append(append([]byte(nil), want...), in.Trail...)
		c12CheckOne(c, s, known)
	}
	if len(want) >= 2 {
		c.NonTrivial() // truncated proper prefixes were exercised
	}
	c12FlushKnown(c, known)
}

// --------------------------------------------------------------- generators

func c12GenValue(rt *rapid.T) c12ValIn {
	var v uint64
	switch rapid.IntRange(0, 3).Draw(rt, "kind") {
	case 0: // uniform in bit length
		k := rapid.IntRange(0, 64).Draw(rt, "bits")
		if k > 0 {
			lo := uint64(1) << uint(k-1)
			hi := lo<<1 - 1
			if k == 64 {
				hi = ^uint64(0)
			}
			v = rapid.Uint64Range(lo, hi).Draw(rt, "v")
		}
	case 1: // around the 7l thresholds
		l := rapid.IntRange(1, 9).Draw(rt, "l")
		var base uint64
		if l*7 < 64 {
			base = uint64(1) << uint(7*l)
		}
		d := rapid.Int64Range(-300, 300).Draw(rt, "delta")
		v = base + uint64(d)
	case 2: // around the 8l thresholds
		l := rapid.IntRange(1, 8).Draw(rt, "l")
		var base uint64
		if l*8 < 64 {
			base = uint64(1) << uint(8*l)
		}
		d := rapid.Int64Range(-300, 300).Draw(rt, "delta")
		v = base + uint64(d)
	default:
		v = rapid.Uint64().Draw(rt, "v")
	}
	nt := rapid.IntRange(0, 3).Draw(rt, "ntrail")
	return c12ValIn{V: v, Trail: rapid.SliceOfN(rapid.Byte(), nt, nt).Draw(rt, "trail")}
}

// c12FormL writes v in the l-form (l in 0..8) whether or not that is canonical.
// Requires v < 2^(7l+7) for l < 8.
func c12FormL(v uint64, l int) []byte {
	out := make([]byte, 0, 9)
	if l == 8 {
		out = append(out, 0xFF)
	} else {
		lead := 0x100 - (0x100 >> uint(l))
		out = append(out, byte(lead)|byte(v>>(8*uint(l))))
	}
	for i := 0; i < l; i++ {
		out = append(out, byte(v>>(8*uint(i))))
	}
	return out
}

// structured strings: pick the form l, then a value relative to the minimality
// bound 2^(7l) (below = non-minimal), then cut or extend.
func c12GenString(rt *rapid.T) c12StrIn {
	l := rapid.IntRange(0, 8).Draw(rt, "l")
	var lower, upper uint64 // canonical range of the l-form: [lower, upper]
	if l == 0 {
		lower, upper = 0, 127
	} else if l < 8 {
		lower, upper = uint64(1)<<uint(7*l), uint64(1)<<uint(7*l+7)-1
	} else {
		lower, upper = uint64(1)<<56, ^uint64(0)
	}
	var v uint64
	switch rapid.IntRange(0, 6).Draw(rt, "vkind") {
	case 0:
		v = lower
	case 1:
		if lower > 0 {
			v = lower - 1
		}
	case 2:
		v = upper
	case 3:
		if lower > 0 {
			v = rapid.Uint64Range(0, lower-1).Draw(rt, "below")
		}
	case 4:
		v = rapid.Uint64Range(lower, upper).Draw(rt, "inrange")
	case 5: // below, bit-length uniform
		if lower > 0 {
			k := rapid.IntRange(0, 7*l).Draw(rt, "bits")
			if l == 8 {
				k = rapid.IntRange(0, 56).Draw(rt, "bits8")
			}
			if k > 0 {
				v = rapid.Uint64Range(uint64(1)<<uint(k-1), uint64(1)<<uint(k)-1).Draw(rt, "belowbits")
			}
		}
	default:
		if lower > 0 { // just below the bound
			d := uint64(rapid.IntRange(1, 300).Draw(rt, "d"))
			if d > lower {
				d = lower
			}
			v = lower - d
		}
	}
	s := c12FormL(v, l)
	switch rapid.IntRange(0, 4).Draw(rt, "cut") {
	case 0, 1: // whole
	case 2: // truncate
		s = s[:rapid.IntRange(0, len(s)).Draw(rt, "keep")]
	default: // extend
		nt := rapid.IntRange(1, 4).Draw(rt, "ntrail")
		s = append(s, rapid.SliceOfN(rapid.Byte(), nt, nt).Draw(rt, "trail")...)
	}
	return c12StrIn{S: s}
}

func c12GenRawString(rt *rapid.T) c12StrIn {
	n := rapid.IntRange(0, 12).Draw(rt, "n")
	s := rapid.SliceOfN(rapid.Byte(), n, n).Draw(rt, "s")
	if n > 0 && rapid.Bool().Draw(rt, "biasfirst") {
		l := rapid.IntRange(0, 8).Draw(rt, "l")
		lead := 0x100 - (0x100 >> uint(l))
		s[0] = byte(lead) | (s[0] & byte(0xFF>>uint(l+1)))
		if l == 8 {
			s[0] = 0xFF
		}
	}
	return c12StrIn{S: s}
}

func TestVerif_C12(t *testing.T) {
	s := kit.Begin(t, "C12")
	defer s.Finish()

	// 1. boundary values 0, 2^k-1, 2^k, 2^k+1 (k < 64), 2^64-1: complete enumeration
	if !kit.EnumSub(s, "values_boundary", c12CheckValue) {
		vals := []uint64{0, ^uint64(0), ^uint64(0) - 1}
		for k := 0; k < 64; k++ {
			p := uint64(1) << uint(k)
			vals = append(vals, p-1, p, p+1)
		}
		for i, v := range vals {
			if i%s.NShards != s.Shard {
				continue
			}
			if !kit.Each(s, "values_boundary", c12ValIn{V: v, Trail: []byte{0x80}}, c12CheckValue) {
				break
			}
		}
	}

	// 2. all byte strings of length 1..2 (quick) / 1..3 (thorough): complete enumeration
	maxLen := s.Pick(2, 3)
	if !kit.EnumSub(s, "strings_exhaustive", c12CheckString) {
		idx := 0
	outer:
		for n := 1; n <= maxLen; n++ {
			total := 1 << uint(8*n)
			for x := 0; x < total; x++ {
				idx++
				if idx%s.NShards != s.Shard {
					continue
				}
				b := make([]byte, n)
				for i := 0; i < n; i++ {
					b[i] = byte(x >> uint(8*(n-1-i)))
				}
				if !kit.Each(s, "strings_exhaustive", c12StrIn{S: b}, c12CheckString) {
					break outer
				}
			}
		}
		nstr := 0
		for n := 1; n <= maxLen; n++ {
			nstr += 1 << uint(8*n)
		}
		s.Note("enumerated completely (all shards together; not listed under sub_properties, which shows rapid runs only): strings_exhaustive = every byte string of length 1..%d (%d cases); values_boundary = 0, 2^64-2, 2^64-1 and every 2^k-1, 2^k, 2^k+1 for k<64 (195 cases); strings_ff_boundary = 0xFF ++ E_8(v) for the same boundary values (194 cases). The other sub-properties are random samples; `exhaustive` refers to the enumerated ones only.", maxLen, nstr)
		s.SetExhaustive(true)
	}

	// 3. 0xFF ++ 8-byte suffix: boundary suffixes (complete) + random
	if !kit.EnumSub(s, "strings_ff_boundary", c12CheckString) {
		var sufs []uint64
		sufs = append(sufs, 0, ^uint64(0))
		for k := 0; k < 64; k++ {
			p := uint64(1) << uint(k)
			sufs = append(sufs, p-1, p, p+1)
		}
		for i, v := range sufs {
			if i%s.NShards != s.Shard {
				continue
			}
			if !kit.Each(s, "strings_ff_boundary", c12StrIn{S: c12FormL(v, 8)}, c12CheckString) {
				break
			}
		}
	}

	kit.Run(s, "values_random", kit.N{Quick: 120000, Thorough: 1000000}, c12GenValue, c12CheckValue)
	kit.Run(s, "strings_structured", kit.N{Quick: 160000, Thorough: 2000000}, c12GenString, c12CheckString)
	kit.Run(s, "strings_raw", kit.N{Quick: 80000, Thorough: 1000000}, c12GenRawString, c12CheckString)
}
