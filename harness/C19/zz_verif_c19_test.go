package recent_history

// C19: Merkle mountain range append (GP E.8: A, P, R) and commitment (E.10: M_R).
//
// References (independent of internal/utilities/mmr):
//  (1) literal: the range is a list of optional hashes; appending l is a binary
//      counter carry: n = 0; while n < |r| and r_n != none: l = H_K(r_n ++ l),
//      r_n = none, n++; then r_n = l (extending r by one when n = |r|).
//  (2) structural (histories that start from the empty range, as the property
//      states it): after k appends the list has bitlen(k) entries, entry i is
//      present iff bit i of k is set, and equals the complete binary Keccak
//      merge H_K(left ++ right) of its 2^i consecutive items (older items left;
//      higher peaks hold earlier items).
//  M_R(b): h = present entries of b in order; H_0 if none; h_0 if one; else
//      H_K("peak" ++ M_R(h without its last) ++ last).
// Aliasing: every peak list handed out by the code (and every list the harness
// handed in) is deep-snapshotted and re-compared after every later operation,
// including appends made on a sibling branch that restarts from an earlier list
// (two blocks built on the same prior state).

import (
	"bytes"
	"fmt"
	"math/bits"
	"testing"

	"github.com/New-JAMneration/JAM-Protocol/internal/types"
	"github.com/New-JAMneration/JAM-Protocol/internal/utilities/hash"
	"github.com/New-JAMneration/JAM-Protocol/internal/utilities/mmr"
	kit "github.com/New-JAMneration/JAM-Protocol/internal/verifkit"
	"golang.org/x/crypto/sha3"
	"pgregory.net/rapid"
)

// ---------------------------------------------------------------- reference

type c19Hash = [32]byte

func c19Keccak(parts ...[]byte) c19Hash {
	h := sha3.NewLegacyKeccak256()
	for _, p := range parts {
		h.Write(p)
	}
	var o c19Hash
	copy(o[:], h.Sum(nil))
	return o
}

// abstract range: nil entry = none
type c19Range []*c19Hash

func (r c19Range) clone() c19Range {
	out := make(c19Range, len(r))
	for i, p := range r {
		if p != nil {
			v := *p
			out[i] = &v
		}
	}
	return out
}

func (r c19Range) hasHole() bool {
	for _, p := range r {
		if p == nil {
			return true
		}
	}
	return false
}

// c19RefAppend returns the new range and the number of merges performed.
func c19RefAppend(r c19Range, item c19Hash) (c19Range, int) {
	out := r.clone()
	l := item
	n := 0
	for n < len(out) && out[n] != nil {
		l = c19Keccak(out[n][:], l[:])
		out[n] = nil
		n++
	}
	if n == len(out) {
		out = append(out, nil)
	}
	out[n] = &l
	return out, n
}

func c19RefSuperPeak(r c19Range) c19Hash {
	var acc c19Hash
	first := true
	for _, p := range r {
		if p == nil {
			continue
		}
		if first {
			acc, first = *p, false
			continue
		}
		acc = c19Keccak([]byte("peak"), acc[:], p[:])
	}
	return acc
}

func c19Merge(items []c19Hash) c19Hash {
	if len(items) == 1 {
		return items[0]
	}
	l, r := c19Merge(items[:len(items)/2]), c19Merge(items[len(items)/2:])
	return c19Keccak(l[:], r[:])
}

// c19Structural: the range after appending items to the empty range.
func c19Structural(items []c19Hash) c19Range {
	k := len(items)
	out := make(c19Range, bits.Len(uint(k)))
	pos := 0
	for i := len(out) - 1; i >= 0; i-- {
		if k&(1<<uint(i)) != 0 {
			p := c19Merge(items[pos : pos+(1<<uint(i))])
			out[i] = &p
			pos += 1 << uint(i)
		}
	}
	return out
}

// ------------------------------------------------------------------- input

type c19Op struct {
	// "append" (*MMR).AppendOne on the live object | "controller" AppendAndCommitMmr on the current list |
	// "p" (*MMR).P(current list, item, 0) | "restore" rebuild the live object from a fresh copy of the
	// current list | "fork" continue from an earlier handed-out list | "replace" exercise Replace
	Kind string `json:"kind"`
	Item []byte `json:"item,omitempty"` // 32 bytes (appending kinds, replace)
	Cap  int    `json:"cap,omitempty"`  // restore: spare capacity of the rebuilt list
	Via  int    `json:"via,omitempty"`  // restore: 0 NewMMRFromPeaks, 1 MmrWrapper
	Back int    `json:"back,omitempty"` // fork: which earlier list (mod count); replace: index
}

type c19Input struct {
	Start    [][]byte `json:"start"` // initial peak list (null = hole); empty = start from the empty range
	StartCap int      `json:"start_cap"`
	Ops      []c19Op  `json:"ops"`
}

type c19Tracked struct {
	list  []types.MmrPeak // the slice exactly as handed out / handed in
	snap  c19Range        // deep copy taken at that moment
	ref   c19Range        // abstract range it must equal
	items []c19Hash       // items since the empty range (structural histories only; cap == len)
	what  string
	// produced by a direct P call on an EMPTY list that had spare capacity (KF-C19-1 classifier)
	fromEmptySpareP bool
}

func c19Build(r c19Range, spare int) []types.MmrPeak {
	out := make([]types.MmrPeak, len(r), len(r)+spare)
	for i, p := range r {
		if p != nil {
			v := types.OpaqueHash(*p)
			out[i] = &v
		}
	}
	return out
}

func c19Deep(l []types.MmrPeak) c19Range {
	out := make(c19Range, len(l))
	for i, p := range l {
		if p != nil {
			v := c19Hash(*p)
			out[i] = &v
		}
	}
	return out
}

func c19Same(a, b c19Range) bool {
	if len(a) != len(b) {
		return false
	}
	for i := range a {
		if (a[i] == nil) != (b[i] == nil) {
			return false
		}
		if a[i] != nil && *a[i] != *b[i] {
			return false
		}
	}
	return true
}

func c19Show(r c19Range) string {
	var b bytes.Buffer
	b.WriteString("[")
	for i, p := range r {
		if i > 0 {
			b.WriteString(" ")
		}
		if p == nil {
			b.WriteString("-")
		} else {
			fmt.Fprintf(&b, "%x", p[:4])
		}
	}
	b.WriteString("]")
	return b.String()
}

func c19Check(c *kit.Case, in c19Input) {
	if len(in.Ops) > 2000 || len(in.Start) > 40 {
		return
	}
	// abstract start
	var ref c19Range
	for _, p := range in.Start {
		switch len(p) {
		case 0:
			ref = append(ref, nil)
		case 32:
			var v c19Hash
			copy(v[:], p)
			ref = append(ref, &v)
		default:
			return // malformed replay
		}
	}
	structural := len(ref) == 0
	var items []c19Hash
	seenClass := map[string]bool{}
	class := func(name string) { // count a class once per case
		if !seenClass[name] {
			seenClass[name] = true
			c.Class(name)
		}
	}
	if !structural {
		class("synthetic_start")
	}

	var tracked []c19Tracked
	emptySpareP := false // the operation in flight is a direct P call on an empty list with spare capacity
	track := func(list []types.MmrPeak, what string) {
		tracked = append(tracked, c19Tracked{list: list, snap: c19Deep(list), ref: ref.clone(),
			items: append([]c19Hash(nil), items...), what: what, fromEmptySpareP: emptySpareP})
	}
	recheck := func(after string) {
		for i := range tracked {
			t := &tracked[i]
			if now := c19Deep(t.list); !c19Same(now, t.snap) {
				// KF-C19-1 (narrow): P(r, l, 0) with |r| = 0 returns append(r, l); two such calls on the same
				// empty list that has spare capacity share one backing array, so the second overwrites the
				// first result. Only that shape is excused: one-element victim produced by such a call,
				// modified during another such call.
				if emptySpareP && t.fromEmptySpareP && len(t.list) == 1 && len(now) == 1 {
					c.Known("KF-C19-1", fmt.Sprintf("list #%d (%s) %s became %s after %s", i, t.what, c19Show(t.snap), c19Show(now), after))
				}
				c.Failf("peak list #%d (%s) was %s when handed over and is %s after %s: a list held by a caller was modified",
					i, t.what, c19Show(t.snap), c19Show(now), after)
			}
		}
	}

	cur := c19Build(ref, in.StartCap)
	var m *mmr.MMR
	if len(cur) == 0 && in.StartCap == 0 {
		m = mmr.NewMMR(hash.KeccakHash)
		cur = m.Peaks
	} else {
		m = mmr.NewMMRFromPeaks(cur, hash.KeccakHash)
	}
	track(cur, "initial list given to NewMMRFromPeaks")

	verify := func(got []types.MmrPeak, what string) {
		g := c19Deep(got)
		if !c19Same(g, ref) {
			c.Failf("%s: peaks %s, Gray Paper append gives %s", what, c19Show(g), c19Show(ref))
		}
		if structural {
			k := len(items)
			// the statement's own formulation; O(k) hashes, so complete for short histories and sampled later
			if k <= 48 || k%16 == 0 || k&(k+1) == 0 || k&(k-1) == 0 {
				if s := c19Structural(items); !c19Same(g, s) {
					c.Failf("%s after %d appends from empty: peaks %s, structural definition (bit i of the count / merge of 2^i items) gives %s",
						what, k, c19Show(g), c19Show(s))
				}
			}
			if len(g) != bits.Len(uint(k)) {
				c.Failf("%s after %d appends: %d peak slots, expected %d", what, k, len(g), bits.Len(uint(k)))
			}
		}
		want := c19RefSuperPeak(ref)
		if sp := m.SuperPeak(got); c19Hash(sp) != want {
			c.Failf("%s: SuperPeak(%s) = %x, Gray Paper M_R = %x", what, c19Show(g), sp, want)
		}
	}
	verify(cur, "initial")

	nt := false
	restoredHole := false // the live list was just restored from a list with a hole
	appends := 0
	for oi, op := range in.Ops {
		what := fmt.Sprintf("op %d %s", oi, op.Kind)
		isAppend := op.Kind == "append" || op.Kind == "controller" || op.Kind == "p"
		var item c19Hash
		if isAppend || op.Kind == "replace" {
			if len(op.Item) != 32 {
				return // malformed replay
			}
			copy(item[:], op.Item)
		}
		if isAppend {
			var merges int
			ref, merges = c19RefAppend(ref, item)
			if structural {
				items = append(items, item)
			}
			appends++
			if merges >= 2 {
				nt = true
				class("append_merging_ge2")
			}
			if restoredHole {
				nt = true
				class("append_after_restore_with_hole")
			}
			restoredHole = false
			val := types.OpaqueHash(item) // fresh variable per append: the code keeps the pointer
			switch op.Kind {
			case "append":
				out := m.AppendOne(&val)
				cur = out
				if d := c19Deep(m.Peaks); !c19Same(d, ref) {
					c.Failf("%s: MMR.Peaks %s, Gray Paper append gives %s", what, c19Show(d), c19Show(ref))
				}
			case "controller":
				class("via_AppendAndCommitMmr")
				res, commit := AppendAndCommitMmr(types.Mmr{Peaks: cur}, val)
				if want := c19RefSuperPeak(ref); c19Hash(commit) != want {
					c.Failf("%s: AppendAndCommitMmr commitment %x, Gray Paper M_R of the new range %x", what, commit, want)
				}
				cur = res.Peaks
				m = mmr.NewMMRFromPeaks(cur, hash.KeccakHash)
			case "p":
				class("via_P")
				emptySpareP = len(cur) == 0 && cap(cur) > 0
				if emptySpareP {
					class("via_P_on_empty_list_with_spare_capacity")
				}
				cur = m.P(cur, &val, 0)
				m = mmr.NewMMRFromPeaks(cur, hash.KeccakHash)
			}
			verify(cur, what)
			track(cur, what)
		} else {
			switch op.Kind {
			case "restore":
				spare := op.Cap
				if spare < 0 || spare > 8 {
					spare = 0
				}
				cur = c19Build(ref, spare)
				if op.Via == 1 {
					m = mmr.MmrWrapper(&types.Mmr{Peaks: cur}, hash.KeccakHash)
				} else {
					m = mmr.NewMMRFromPeaks(cur, hash.KeccakHash)
				}
				if m == nil {
					c.Failf("%s: constructor returned nil", what)
				}
				restoredHole = ref.hasHole()
				if restoredHole {
					class("restore_with_hole")
				} else {
					class("restore_no_hole")
				}
				verify(cur, what)
				track(cur, what+" (list given to the constructor)")
			case "fork":
				if len(tracked) == 0 {
					continue
				}
				j := ((op.Back % len(tracked)) + len(tracked)) % len(tracked)
				t := tracked[j]
				cur, ref, items = t.list, t.ref.clone(), append([]c19Hash(nil), t.items...)
				m = mmr.NewMMRFromPeaks(cur, hash.KeccakHash)
				restoredHole = false
				class("fork_from_earlier_list")
				verify(cur, what)
			case "replace":
				if len(cur) == 0 {
					continue
				}
				idx := ((op.Back % len(cur)) + len(cur)) % len(cur)
				val := types.OpaqueHash(item)
				out := m.Replace(cur, idx, &val)
				want := ref.clone()
				want[idx] = &item
				if g := c19Deep(out); !c19Same(g, want) {
					c.Failf("%s: Replace(%s, %d, %x) = %s", what, c19Show(ref), idx, item[:4], c19Show(g))
				}
				hole := m.Replace(cur, idx, nil)
				want[idx] = nil
				if g := c19Deep(hole); !c19Same(g, want) {
					c.Failf("%s: Replace(%s, %d, none) = %s", what, c19Show(ref), idx, c19Show(g))
				}
				// the results belong to the harness: scribbling on them must not reach any tracked list
				for k := range out {
					out[k], hole[k] = &val, &val
				}
				class("replace")
			default:
				return // malformed replay
			}
		}
		recheck(what)
		emptySpareP = false
	}
	switch {
	case appends == 0:
		class("appends_0")
	case appends <= 8:
		class("appends_1_8")
	case appends <= 64:
		class("appends_9_64")
	default:
		class("appends_65_300")
	}
	if nt {
		c.NonTrivial()
	}
}

// --------------------------------------------------------------- generator

func c19Gen(rt *rapid.T) c19Input {
	var in c19Input
	if rapid.IntRange(0, 3).Draw(rt, "synthetic") == 0 {
		n := rapid.IntRange(1, 10).Draw(rt, "startLen")
		for i := 0; i < n; i++ {
			if rapid.IntRange(0, 2).Draw(rt, "hole") == 0 {
				in.Start = append(in.Start, nil)
			} else {
				in.Start = append(in.Start, rapid.SliceOfN(rapid.Byte(), 32, 32).Draw(rt, "peak"))
			}
		}
	}
	in.StartCap = rapid.SampledFrom([]int{0, 0, 1, 2, 4}).Draw(rt, "startCap")
	nOps := rapid.OneOf(rapid.IntRange(0, 12), rapid.IntRange(0, 80), rapid.IntRange(0, 300)).Draw(rt, "nOps")
	// a history leans towards one way of appending, so that long runs through one API occur
	lean := rapid.SampledFrom([]string{"append", "controller", "p", "mixed"}).Draw(rt, "lean")
	for i := 0; i < nOps; i++ {
		k := rapid.IntRange(0, 99).Draw(rt, "k")
		var op c19Op
		switch {
		case k < 80:
			op.Kind = lean
			if lean == "mixed" || k < 8 {
				op.Kind = rapid.SampledFrom([]string{"append", "controller", "p"}).Draw(rt, "akind")
			}
			op.Item = rapid.SliceOfN(rapid.Byte(), 32, 32).Draw(rt, "item")
			switch rapid.IntRange(0, 7).Draw(rt, "itemkind") {
			case 0: // the all-zero hash is a REAL item (M_B([]) = H^0 is appended for every block without outputs)
				op.Item = make([]byte, 32)
			case 1: // all ones
				for j := range op.Item {
					op.Item[j] = 0xFF
				}
			}
		case k < 88:
			op.Kind = "restore"
			op.Cap = rapid.IntRange(0, 4).Draw(rt, "cap")
			op.Via = rapid.IntRange(0, 1).Draw(rt, "via")
		case k < 95:
			op.Kind = "fork"
			op.Back = rapid.IntRange(0, 1<<20).Draw(rt, "back")
		default:
			op.Kind = "replace"
			op.Back = rapid.IntRange(0, 1<<20).Draw(rt, "idx")
			op.Item = rapid.SliceOfN(rapid.Byte(), 32, 32).Draw(rt, "item")
		}
		in.Ops = append(in.Ops, op)
	}
	return in
}

// deterministic straight-line histories: 0..maxN appends from empty through one API
func c19Straight(n int, kind string) c19Input {
	var in c19Input
	for i := 0; i < n; i++ {
		it := c19Keccak([]byte(fmt.Sprintf("c19 item %d", i)))
		in.Ops = append(in.Ops, c19Op{Kind: kind, Item: it[:]})
	}
	return in
}

func TestVerif_C19(t *testing.T) {
	s := kit.Begin(t, "C19")
	defer s.Finish()

	// 1. every history length 0..300 from the empty range, once per appending API (enumerated)
	if !kit.EnumSub(s, "straight_all_lengths", c19Check) {
		idx := 0
	outer:
		for _, kind := range []string{"append", "controller", "p"} {
			for n := 0; n <= 300; n++ {
				idx++
				if idx%s.NShards != s.Shard {
					continue
				}
				// the check walks every intermediate state, so lengths that are prefixes of a longer
				// history are covered by it; still run a spread of lengths as separate cases
				if !s.Thorough() && n > 40 && n%20 != 0 && n != 255 && n != 256 && n != 257 {
					continue
				}
				if !kit.Each(s, "straight_all_lengths", c19Straight(n, kind), c19Check) {
					break outer
				}
			}
		}
	}

	kit.Run(s, "histories", kit.N{Quick: 4000, Thorough: 60000}, c19Gen, c19Check)
}
