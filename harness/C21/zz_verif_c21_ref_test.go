package accumulation

// C21 reference model and implementation driver.
//
// Reference: the Gray Paper equations, literally, over small integers standing
// for work-package hashes (mapped to 32-byte hashes only at the boundary):
//
//	(12.4)  W!  = [w | w <- W, |(w_c)_p| = 0 and w_l = {}]
//	(12.5)  WQ  = E([D(w) | w <- W, |(w_c)_p| > 0 or w_l != {}], U(xi))
//	(12.6)  D(w) = (w, {(w_c)_p} u K(w_l))
//	(12.7)  E(r, x) = [(w, d \ x) | (w, d) <- r, (w_s)_p not in x]
//	(12.8)  Q(r) = [] if g = [] else g ++ Q(E(r, P(g)))   where g = [w | (w, {}) <- r]
//	(12.9)  P(w) = {(w_s)_p | w in w}
//	(12.10) m = H_t mod E
//	(12.11) W* = W! ++ Q(q)
//	(12.12) q = E(theta[m:] ++ theta[:m] ++ WQ, P(W!))
//	(12.31) xi'[E-1] = P(W*[:n])      (12.32) xi'[i] = xi[i+1]
//	(12.34) theta'[(m-i) mod E] = E(WQ, xi'[E-1])                  if i = 0
//	                             = []                               if 1 <= i < tau'-tau
//	                             = E(theta[(m-i) mod E], xi'[E-1])  if i >= tau'-tau
//
// No function of the package under test is used to compute expected values.

import (
	"crypto/sha256"
	"encoding/binary"
	"fmt"
	"sort"

	"github.com/New-JAMneration/JAM-Protocol/internal/blockchain"
	"github.com/New-JAMneration/JAM-Protocol/internal/types"
	kit "github.com/New-JAMneration/JAM-Protocol/internal/verifkit"
)

// ---- input pieces shared by the sub-properties ---------------------------------

// c21Report is one work report. For a report sitting in the ready queue the
// stored dependency set is Deps (what an earlier block left there); for a newly
// available report the dependencies come from Prereq and Lookup.
type c21Report struct {
	ID     int   `json:"id"`            // unique; carried in PackageSpec.Length
	Hash   int   `json:"h"`             // work-package hash (index)
	Prereq []int `json:"p,omitempty"`   // (w_c)_p in sequence order
	Lookup []int `json:"l,omitempty"`   // K(w_l) in sequence order
	Loc    int   `json:"loc"`           // -1: newly available (in W); k >= 0: in theta[k]
	Deps   []int `json:"d,omitempty"`   // only for Loc >= 0: stored dependency set
}

// ---- reference ----------------------------------------------------------------------

type c21Set map[int]bool

func (s c21Set) sorted() []int {
	o := make([]int, 0, len(s))
	for k := range s {
		o = append(o, k)
	}
	sort.Ints(o)
	return o
}

func c21SetOf(xs ...[]int) c21Set {
	s := c21Set{}
	for _, x := range xs {
		for _, v := range x {
			s[v] = true
		}
	}
	return s
}

type c21Rec struct {
	ID   int
	Hash int
	Deps c21Set
}

func c21RefD(w c21Report) c21Rec { return c21Rec{w.ID, w.Hash, c21SetOf(w.Prereq, w.Lookup)} }

func c21RefE(r []c21Rec, x c21Set) []c21Rec {
	out := []c21Rec{}
	for _, e := range r {
		if x[e.Hash] {
			continue
		}
		d := c21Set{}
		for k := range e.Deps {
			if !x[k] {
				d[k] = true
			}
		}
		out = append(out, c21Rec{e.ID, e.Hash, d})
	}
	return out
}

func c21RefP(r []c21Rec) c21Set {
	s := c21Set{}
	for _, e := range r {
		s[e.Hash] = true
	}
	return s
}

func c21RefQ(r []c21Rec) []c21Rec {
	var g []c21Rec
	for _, e := range r {
		if len(e.Deps) == 0 {
			g = append(g, e)
		}
	}
	if len(g) == 0 {
		return nil
	}
	return append(g, c21RefQ(c21RefE(r, c21RefP(g)))...)
}

// c21State is (tau, xi, theta) of the reference.
type c21State struct {
	Tau   uint32
	Xi    []c21Set   // E entries
	Theta [][]c21Rec // E entries
}

func c21NewState(E int) *c21State {
	st := &c21State{Xi: make([]c21Set, E), Theta: make([][]c21Rec, E)}
	for i := range st.Xi {
		st.Xi[i] = c21Set{}
	}
	return st
}

func (st *c21State) unionXi() c21Set {
	u := c21Set{}
	for _, x := range st.Xi {
		for k := range x {
			u[k] = true
		}
	}
	return u
}

type c21RefOut struct {
	WBang    []c21Rec
	WQ       []c21Rec
	Composed []c21Rec // theta[m:] ++ theta[:m] ++ WQ (before pruning with P(W!))
	Q        []c21Rec // q of (12.12)
	WStar    []c21Rec // W! ++ Q(q)
	NonTriv  bool     // some report of Q(q) had a non-empty dependency set in Composed
}

func c21RefSelect(st *c21State, slot uint32, W []c21Report) c21RefOut {
	E := len(st.Xi)
	var o c21RefOut
	var withDeps []c21Rec
	for _, w := range W {
		if len(w.Prereq) == 0 && len(w.Lookup) == 0 {
			o.WBang = append(o.WBang, c21Rec{w.ID, w.Hash, c21Set{}})
		} else {
			withDeps = append(withDeps, c21RefD(w))
		}
	}
	o.WQ = c21RefE(withDeps, st.unionXi())
	m := int(slot % uint32(E))
	for _, t := range st.Theta[m:] {
		o.Composed = append(o.Composed, t...)
	}
	for _, t := range st.Theta[:m] {
		o.Composed = append(o.Composed, t...)
	}
	o.Composed = append(o.Composed, o.WQ...)
	o.Q = c21RefE(o.Composed, c21RefP(o.WBang))
	picked := c21RefQ(o.Q)
	o.WStar = append(append([]c21Rec{}, o.WBang...), picked...)
	before := map[int]int{}
	for _, e := range o.Composed {
		before[e.ID] = len(e.Deps)
	}
	for _, e := range picked {
		if before[e.ID] > 0 {
			o.NonTriv = true
		}
	}
	return o
}

// c21RefAdvance computes (tau', xi', theta') for n accumulated reports.
func c21RefAdvance(st *c21State, slot uint32, o c21RefOut, n int) *c21State {
	E := len(st.Xi)
	nx := c21NewState(E)
	nx.Tau = slot
	for i := 0; i < E-1; i++ {
		for k := range st.Xi[i+1] {
			nx.Xi[i][k] = true
		}
	}
	nx.Xi[E-1] = c21RefP(o.WStar[:n])
	m := int(slot % uint32(E))
	gap := int64(slot) - int64(st.Tau)
	for i := 0; i < E; i++ {
		idx := ((m-i)%E + E) % E
		switch {
		case i == 0:
			nx.Theta[idx] = c21RefE(o.WQ, nx.Xi[E-1])
		case int64(i) < gap:
			nx.Theta[idx] = []c21Rec{}
		default:
			nx.Theta[idx] = c21RefE(st.Theta[idx], nx.Xi[E-1])
		}
	}
	return nx
}

// ---- boundary: indices <-> repository types --------------------------------------------

var c21HashCache = map[int]types.WorkPackageHash{}
var c21HashRev = map[types.WorkPackageHash]int{}

func c21HashBytes(i int) types.WorkPackageHash {
	if h, ok := c21HashCache[i]; ok {
		return h
	}
	var b [8]byte
	copy(b[:4], "c21h")
	binary.LittleEndian.PutUint32(b[4:], uint32(i))
	h := types.WorkPackageHash(sha256.Sum256(b[:]))
	c21HashCache[i] = h
	c21HashRev[h] = i
	return h
}

func c21HashIndex(c *kit.Case, h types.WorkPackageHash) int {
	i, ok := c21HashRev[h]
	if !ok {
		c.Failf("implementation produced a work-package hash %x that occurs nowhere in the input", h)
	}
	return i
}

func c21MakeReport(w c21Report) types.WorkReport {
	r := types.WorkReport{}
	r.PackageSpec.Hash = c21HashBytes(w.Hash)
	r.PackageSpec.Length = types.U32(w.ID)
	r.CoreIndex = types.CoreIndex(w.ID % 2)
	for _, p := range w.Prereq {
		r.Context.Prerequisites = append(r.Context.Prerequisites, types.OpaqueHash(c21HashBytes(p)))
	}
	for _, l := range w.Lookup {
		root := sha256.Sum256([]byte(fmt.Sprintf("c21root%d", l)))
		r.SegmentRootLookup = append(r.SegmentRootLookup, types.SegmentRootLookupItem{WorkPackageHash: c21HashBytes(l), SegmentTreeRoot: types.OpaqueHash(root)})
	}
	r.Results = []types.WorkResult{{ServiceID: types.ServiceID(w.ID % 3), AccumulateGas: 10}}
	return r
}

func c21MakeRecord(e c21Rec, w c21Report) types.ReadyRecord {
	rec := types.ReadyRecord{Report: c21MakeReport(w), Dependencies: []types.WorkPackageHash{}}
	for _, d := range e.Deps.sorted() {
		rec.Dependencies = append(rec.Dependencies, c21HashBytes(d))
	}
	return rec
}

// c21Prime installs the reference state as the prior state of a fresh singleton.
// byID gives the report behind every record of theta.
func c21Prime(st *c21State, byID map[int]c21Report) *blockchain.ChainState {
	blockchain.ResetInstance()
	cs := blockchain.GetInstance()
	E := len(st.Xi)
	xi := make(types.AccumulatedQueue, E)
	for i, x := range st.Xi {
		xi[i] = types.AccumulatedQueueItem{}
		for _, k := range x.sorted() {
			xi[i] = append(xi[i], c21HashBytes(k))
		}
	}
	th := make(types.ReadyQueue, E)
	for i, t := range st.Theta {
		th[i] = types.ReadyQueueItem{}
		for _, e := range t {
			th[i] = append(th[i], c21MakeRecord(e, byID[e.ID]))
		}
	}
	cs.GetPriorStates().SetXi(xi)
	cs.GetPriorStates().SetVartheta(th)
	cs.GetPriorStates().SetTau(types.TimeSlot(st.Tau))
	return cs
}

// c21Commit moves posterior (xi, theta, tau) to the prior state the way
// ChainState.StateCommit does (shallow) and installs a fresh posterior state.
func c21Commit(cs *blockchain.ChainState) {
	post := cs.GetPosteriorStates()
	cs.GetPriorStates().SetXi(post.GetXi())
	cs.GetPriorStates().SetVartheta(post.GetVartheta())
	cs.GetPriorStates().SetTau(post.GetTau())
	post.SetState(blockchain.NewPosteriorStates().GetState())
}

type c21ImplSel struct {
	WBang []types.WorkReport
	WQ    types.ReadyQueueItem
	WStar []types.WorkReport
}

// c21ImplSelect runs (12.4)-(12.12) of the implementation for one block.
func c21ImplSelect(cs *blockchain.ChainState, slot uint32, W []c21Report) c21ImplSel {
	cs.AddBlock(types.Block{Header: types.Header{Slot: types.TimeSlot(slot)}})
	cs.GetPosteriorStates().SetTau(types.TimeSlot(slot))
	avail := make([]types.WorkReport, 0, len(W))
	for _, w := range W {
		avail = append(avail, c21MakeReport(w))
	}
	cs.GetIntermediateStates().SetAvailableWorkReports(avail)
	if err := ProcessAccumulation(); err != nil {
		panic(fmt.Sprintf("ProcessAccumulation: %v", err))
	}
	is := cs.GetIntermediateStates()
	return c21ImplSel{WBang: is.GetAccumulatedWorkReports(), WQ: is.GetQueuedWorkReports(), WStar: is.GetAccumulatableWorkReports()}
}

// ---- comparisons ------------------------------------------------------------------------

func c21IDs(r []c21Rec) []int {
	o := make([]int, len(r))
	for i, e := range r {
		o[i] = e.ID
	}
	return o
}

func c21CmpReports(c *kit.Case, what string, got []types.WorkReport, want []c21Rec) {
	if len(got) != len(want) {
		gi := make([]int, len(got))
		for i, g := range got {
			gi[i] = int(g.PackageSpec.Length)
		}
		c.Failf("%s: implementation lists reports %v, reference %v", what, gi, c21IDs(want))
	}
	for i := range want {
		if int(got[i].PackageSpec.Length) != want[i].ID || got[i].PackageSpec.Hash != c21HashBytes(want[i].Hash) {
			gi := make([]int, len(got))
			for j, g := range got {
				gi[j] = int(g.PackageSpec.Length)
			}
			c.Failf("%s: implementation lists reports %v, reference %v (first difference at position %d)", what, gi, c21IDs(want), i)
		}
	}
}

func c21DescribeQueue(c *kit.Case, q types.ReadyQueueItem) string {
	s := "["
	for i, r := range q {
		if i > 0 {
			s += " "
		}
		d := c21Set{}
		for _, h := range r.Dependencies {
			d[c21HashIndex(c, h)] = true
		}
		s += fmt.Sprintf("(%d,%v)", r.Report.PackageSpec.Length, d.sorted())
	}
	return s + "]"
}

func c21DescribeRecs(r []c21Rec) string {
	s := "["
	for i, e := range r {
		if i > 0 {
			s += " "
		}
		s += fmt.Sprintf("(%d,%v)", e.ID, e.Deps.sorted())
	}
	return s + "]"
}

// c21CmpQueue compares a queue (sequence of (report, dependency SET)).
func c21CmpQueue(c *kit.Case, what string, got types.ReadyQueueItem, want []c21Rec) {
	bad := len(got) != len(want)
	for i := 0; !bad && i < len(want); i++ {
		if int(got[i].Report.PackageSpec.Length) != want[i].ID || got[i].Report.PackageSpec.Hash != c21HashBytes(want[i].Hash) {
			bad = true
			break
		}
		d := c21Set{}
		for _, h := range got[i].Dependencies {
			d[c21HashIndex(c, h)] = true
		}
		if len(d) != len(want[i].Deps) {
			bad = true
			break
		}
		for k := range d {
			if !want[i].Deps[k] {
				bad = true
			}
		}
	}
	if bad {
		c.Failf("%s: implementation %s, reference %s  (report id, dependency set)", what, c21DescribeQueue(c, got), c21DescribeRecs(want))
	}
}

func c21CmpXi(c *kit.Case, what string, got types.AccumulatedQueue, want []c21Set) {
	if len(got) != len(want) {
		c.Failf("%s: xi has %d entries, reference %d", what, len(got), len(want))
	}
	for i := range want {
		g := c21Set{}
		for _, h := range got[i] {
			g[c21HashIndex(c, h)] = true
		}
		same := len(g) == len(want[i])
		for k := range g {
			if !want[i][k] {
				same = false
			}
		}
		if !same {
			c.Failf("%s: xi'[%d] = %v, reference %v", what, i, g.sorted(), want[i].sorted())
		}
	}
}

// c21Consistent: the precondition report validation establishes: package hashes
// of all reports in theta and W are pairwise distinct and not in U(xi); stored
// dependencies of theta are not in U(xi).
func c21Consistent(st *c21State, W []c21Report) bool {
	u := st.unionXi()
	seen := c21Set{}
	for _, t := range st.Theta {
		for _, e := range t {
			if u[e.Hash] || seen[e.Hash] {
				return false
			}
			seen[e.Hash] = true
			for d := range e.Deps {
				if u[d] {
					return false
				}
			}
		}
	}
	for _, w := range W {
		if u[w.Hash] || seen[w.Hash] {
			return false
		}
		seen[w.Hash] = true
	}
	// xi entries pairwise disjoint (a hash is accumulated once)
	cnt := 0
	for _, x := range st.Xi {
		cnt += len(x)
	}
	return cnt == len(u)
}

// c21Invariants: statements of the property checked on the IMPLEMENTATION's
// outputs alone (independent of the reference model).
//
//	always:      every report of W* after W! has each of its residual dependencies
//	             (stored set for theta records, D(w) \ U(xi) for new ones, as the
//	             implementation itself reports them in WQ) provided by a report
//	             EARLIER in W*; if everything was accumulated (n = |W*|) no record
//	             with an empty dependency set stays in theta'.
//	consistent:  W* has distinct hashes, none in U(xi); theta' holds no report whose
//	             hash is in U(xi') and no dependency in U(xi').
func c21Invariants(c *kit.Case, tag string, prior *c21State, sel c21ImplSel, n int, consistent bool,
	postXi types.AccumulatedQueue, postTheta types.ReadyQueue) {
	resid := map[int]c21Set{} // report id -> residual dependency set before in-block pruning
	for _, t := range prior.Theta {
		for _, e := range t {
			resid[e.ID] = e.Deps
		}
	}
	for _, r := range sel.WQ {
		d := c21Set{}
		for _, h := range r.Dependencies {
			d[c21HashIndex(c, h)] = true
		}
		resid[int(r.Report.PackageSpec.Length)] = d
	}
	provided := c21Set{}
	for pos, w := range sel.WStar {
		id := int(w.PackageSpec.Length)
		if pos >= len(sel.WBang) {
			for _, d := range resid[id].sorted() {
				if !provided[d] {
					c.Failf("%s: report %d is chosen at position %d of W* but its dependency %d is not the package of any earlier report in W*", tag, id, pos, d)
				}
			}
		}
		provided[c21HashIndex(c, w.PackageSpec.Hash)] = true
	}
	if n == len(sel.WStar) {
		for k, t := range postTheta {
			for _, r := range t {
				if len(r.Dependencies) == 0 {
					c.Failf("%s: all of W* was accumulated but theta'[%d] keeps report %d with no remaining dependency", tag, k, r.Report.PackageSpec.Length)
				}
			}
		}
	}
	if !consistent {
		return
	}
	u := prior.unionXi()
	seen := c21Set{}
	for _, w := range sel.WStar {
		h := c21HashIndex(c, w.PackageSpec.Hash)
		if u[h] {
			c.Failf("%s: report %d with package %d is chosen although the package is in the accumulated history", tag, w.PackageSpec.Length, h)
		}
		if seen[h] {
			c.Failf("%s: package %d is chosen twice in W*", tag, h)
		}
		seen[h] = true
	}
	up := c21Set{}
	for _, x := range postXi {
		for _, h := range x {
			k := c21HashIndex(c, h)
			if up[k] {
				c.Failf("%s: package %d occurs twice in xi'", tag, k)
			}
			up[k] = true
		}
	}
	for k, t := range postTheta {
		for _, r := range t {
			if up[c21HashIndex(c, r.Report.PackageSpec.Hash)] {
				c.Failf("%s: theta'[%d] keeps report %d whose package is in xi'", tag, k, r.Report.PackageSpec.Length)
			}
			for _, d := range r.Dependencies {
				if up[c21HashIndex(c, d)] {
					c.Failf("%s: theta'[%d] report %d keeps dependency %d which is in xi'", tag, k, r.Report.PackageSpec.Length, c21HashIndex(c, d))
				}
			}
		}
	}
}
