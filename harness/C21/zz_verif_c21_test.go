package accumulation

// C21: accumulation queue selection and ordering (GP 12.4-12.12, 12.31-12.34).
//
// Sub-properties
//   enum_graphs_le3   exhaustive enumeration of dependency graphs on <= 3 reports
//   enum_graphs_4     exhaustive enumeration on 4 reports (thorough) / rapid sample (quick)
//   random_graphs     rapid: graphs up to 40 reports, arbitrary (also inconsistent) states
//   histories         rapid: multi-block histories from consistent states, singleton
//                     carried from block to block, PVM part replaced by a drawn n
// Every case resets the blockchain singleton and primes it explicitly.

import (
	"runtime/debug"
	"testing"

	"github.com/New-JAMneration/JAM-Protocol/internal/types"
	kit "github.com/New-JAMneration/JAM-Protocol/internal/verifkit"
	"github.com/New-JAMneration/JAM-Protocol/logger"
	"pgregory.net/rapid"
)

const c21E = 12 // tiny epoch length; set explicitly by the test

// c21Graph is one single-block case: a prior (xi, theta), the newly available
// reports, the slot and tau'-tau, and the number n of accumulated reports
// (N < 0: every n in 0..|W*| is tried).
type c21Graph struct {
	Slot    uint32      `json:"slot"`
	Gap     uint32      `json:"gap"` // tau' - tau >= 1, <= slot
	Xi      [][]int     `json:"xi"`  // up to E entries of hash indices
	Reports []c21Report `json:"reports"`
	N       int         `json:"n"`
}

func c21StateOfGraph(in c21Graph) (*c21State, []c21Report, map[int]c21Report, bool) {
	if in.Gap < 1 || in.Gap > in.Slot || len(in.Xi) > c21E || len(in.Reports) > 64 {
		return nil, nil, nil, false
	}
	st := c21NewState(c21E)
	st.Tau = in.Slot - in.Gap
	for i, x := range in.Xi {
		for _, k := range x {
			if k < 0 || k > 1<<20 {
				return nil, nil, nil, false
			}
			st.Xi[i][k] = true
		}
	}
	byID := map[int]c21Report{}
	var W []c21Report
	for _, r := range in.Reports {
		if _, dup := byID[r.ID]; dup || r.ID < 0 || r.ID > 1<<20 || r.Hash < 0 || r.Hash > 1<<20 || r.Loc < -1 || r.Loc >= c21E {
			return nil, nil, nil, false
		}
		for _, l := range [][]int{r.Prereq, r.Lookup, r.Deps} {
			for _, k := range l {
				if k < 0 || k > 1<<20 {
					return nil, nil, nil, false
				}
			}
		}
		byID[r.ID] = r
		if r.Loc < 0 {
			W = append(W, r)
		} else {
			st.Theta[r.Loc] = append(st.Theta[r.Loc], c21Rec{r.ID, r.Hash, c21SetOf(r.Deps)})
		}
	}
	return st, W, byID, true
}

func c21CheckGraph(c *kit.Case, in c21Graph) {
	st, W, byID, ok := c21StateOfGraph(in)
	if !ok {
		return // malformed replay
	}
	// make sure every hash index of the case has its reverse mapping
	for _, x := range in.Xi {
		for _, k := range x {
			c21HashBytes(k)
		}
	}
	for _, r := range in.Reports {
		c21HashBytes(r.Hash)
		for _, l := range [][]int{r.Prereq, r.Lookup, r.Deps} {
			for _, k := range l {
				c21HashBytes(k)
			}
		}
	}
	ref := c21RefSelect(st, in.Slot, W)
	consistent := c21Consistent(st, W)

	// ---- classes and the non-trivial rule
	if ref.NonTriv {
		c.NonTrivial()
		c.Class("queued_report_readied_in_block")
	}
	if consistent {
		c.Class("consistent_state")
	} else {
		c.Class("inconsistent_state")
	}
	if len(ref.WStar) > len(ref.WBang) {
		c.Class("queue_contributes_to_Wstar")
	}
	{
		seen := c21Set{}
		for _, r := range in.Reports {
			if seen[r.Hash] {
				c.Class("duplicate_package_hash")
				break
			}
			seen[r.Hash] = true
		}
		for _, r := range in.Reports {
			d := c21SetOf(r.Prereq, r.Lookup, r.Deps)
			if d[r.Hash] {
				c.Class("self_dependency")
				break
			}
		}
		for _, r := range in.Reports {
			if len(r.Lookup) > 0 {
				c.Class("segment_root_lookup_dependency")
				break
			}
		}
		// a cycle among the reports: some report left over with dependencies all provided by left-over reports
		left := c21RefE(ref.Q, c21RefP(ref.WStar))
		lp := c21RefP(left)
		for _, e := range left {
			all := len(e.Deps) > 0
			for d := range e.Deps {
				if !lp[d] {
					all = false
				}
			}
			if all {
				c.Class("dependency_cycle_left_in_queue")
				break
			}
		}
	}

	// ---- the pure functions, called directly
	{
		var composed types.ReadyQueueItem
		for _, e := range ref.Composed {
			composed = append(composed, c21MakeRecord(e, byID[e.ID]))
		}
		var x []types.WorkPackageHash
		for _, k := range c21RefP(ref.WBang).sorted() {
			x = append(x, c21HashBytes(k))
		}
		gotQ := QueueEditingFunction(composed, x)
		c21CmpQueue(c, "E(theta[m:]++theta[:m]++WQ, P(W!))", gotQ, ref.Q)
		// the edit must not write through the caller's records
		for i, e := range ref.Composed {
			if len(composed[i].Dependencies) != len(e.Deps) {
				c.Failf("QueueEditingFunction changed the dependency list of its input record %d", e.ID)
			}
		}
		gotP := AccumulationPriorityQueue(gotQ)
		c21CmpReports(c, "Q(q)", gotP, ref.WStar[len(ref.WBang):])
	}

	// ---- the block functions on the singleton, for each n
	ns := []int{in.N}
	if in.N < 0 {
		ns = ns[:0]
		for n := 0; n <= len(ref.WStar); n++ {
			ns = append(ns, n)
		}
	} else if in.N > len(ref.WStar) {
		ns = []int{len(ref.WStar)}
	}
	cs := c21Prime(st, byID)
	sel := c21ImplSelect(cs, in.Slot, W)
	c21CmpReports(c, "W!", sel.WBang, ref.WBang)
	c21CmpQueue(c, "WQ", sel.WQ, ref.WQ)
	c21CmpReports(c, "W*", sel.WStar, ref.WStar)
	for _, n := range ns {
		// fresh posterior xi/theta for every n (the prior state and W!, WQ, W* are inputs only)
		cs.GetPosteriorStates().SetXi(make(types.AccumulatedQueue, c21E))
		cs.GetPosteriorStates().SetVartheta(make(types.ReadyQueue, c21E))
		want := c21RefAdvance(st, in.Slot, ref, n)
		updateXi(cs, types.U64(n))
		updateVartheta(cs)
		postXi := cs.GetPosteriorStates().GetXi()
		postTh := cs.GetPosteriorStates().GetVartheta()
		c21CmpXi(c, "xi'", postXi, want.Xi)
		if len(postTh) != c21E {
			c.Failf("theta' has %d entries", len(postTh))
		}
		for k := range want.Theta {
			c21CmpQueue(c, "theta'["+itoa(k)+"] (n="+itoa(n)+")", postTh[k], want.Theta[k])
		}
		c21Invariants(c, "n="+itoa(n), st, sel, n, consistent, postXi, postTh)
	}
}

func itoa(i int) string {
	if i == 0 {
		return "0"
	}
	neg := i < 0
	if neg {
		i = -i
	}
	var b []byte
	for i > 0 {
		b = append([]byte{byte('0' + i%10)}, b...)
		i /= 10
	}
	if neg {
		b = append([]byte{'-'}, b...)
	}
	return string(b)
}

// ---- exhaustive enumeration ---------------------------------------------------------------
//
// Family(n, U, xiMode): n reports, hash universe 0..U-1 (the first n indices are the
// candidates for package hashes, the others are external hashes).
//   * package hashes: every restricted-growth string (all patterns of duplicate hashes
//     up to renaming)
//   * dependency set of each report: every subset of the universe (self-loops, cycles)
//   * xi: every subset of the universe (xiMode 0) or every subset of size <= 1 (xiMode 1),
//     hash k placed in xi[k mod E]
//   * location pattern: every non-decreasing assignment of {theta[m], theta[m-1], W} to
//     the reports (order inside one location = report order; other orders are the same
//     case under renaming of reports since all graphs are enumerated)
//   * how dependencies are carried by a new report (prerequisites / segment-root lookups /
//     alternating / both), slot and tau'-tau: cycle deterministically with the case number
//   * n (accumulated count): every value 0..|W*| inside the case

func c21RGS(n int) [][]int {
	var out [][]int
	var rec func(cur []int, max int)
	rec = func(cur []int, max int) {
		if len(cur) == n {
			out = append(out, append([]int(nil), cur...))
			return
		}
		for v := 0; v <= max+1; v++ {
			nm := max
			if v > max {
				nm = v
			}
			rec(append(cur, v), nm)
		}
	}
	rec(nil, -1)
	return out
}

// c21LocPatterns: non-decreasing sequences over nloc locations; with nloc = 3 the
// locations are {theta[m], theta[m-1], W}, with nloc = 2 {theta[m], W}.
func c21LocPatterns(n, nloc int) [][]int {
	var out [][]int
	var rec func(cur []int, min int)
	rec = func(cur []int, min int) {
		if len(cur) == n {
			out = append(out, append([]int(nil), cur...))
			return
		}
		for v := min; v < nloc; v++ {
			x := v
			if nloc == 2 && v == 1 {
				x = 2
			}
			rec(append(cur, x), v)
		}
	}
	rec(nil, 0)
	return out
}

var c21Gaps = []uint32{1, 1, 2, 3, c21E - 1, c21E, c21E + 1, c21E + 5}

type c21Family struct {
	n, U, xiMode, nloc int
	rgs, locs    [][]int
	xis          [][]int
}

func c21NewFamily(n, U, xiMode, nloc int) *c21Family {
	f := &c21Family{n: n, U: U, xiMode: xiMode, nloc: nloc, rgs: c21RGS(n), locs: c21LocPatterns(n, nloc)}
	for m := 0; m < 1<<uint(U); m++ {
		var s []int
		for k := 0; k < U; k++ {
			if m>>uint(k)&1 == 1 {
				s = append(s, k)
			}
		}
		if xiMode == 1 && len(s) > 1 {
			continue
		}
		f.xis = append(f.xis, s)
	}
	return f
}

func (f *c21Family) size() uint64 {
	depsPer := uint64(1) << uint(f.U)
	s := uint64(len(f.rgs)) * uint64(len(f.locs)) * uint64(len(f.xis))
	for i := 0; i < f.n; i++ {
		s *= depsPer
	}
	return s
}

// at decodes case number idx of the family.
func (f *c21Family) at(idx uint64) c21Graph {
	orig := idx
	depsPer := uint64(1) << uint(f.U)
	dm := make([]uint64, f.n)
	for i := 0; i < f.n; i++ {
		dm[i] = idx % depsPer
		idx /= depsPer
	}
	xi := f.xis[idx%uint64(len(f.xis))]
	idx /= uint64(len(f.xis))
	loc := f.locs[idx%uint64(len(f.locs))]
	idx /= uint64(len(f.locs))
	rgs := f.rgs[idx%uint64(len(f.rgs))]
	kind := int(orig % 4)
	gap := c21Gaps[int((orig/4)%uint64(len(c21Gaps)))]
	slot := uint32(100 + (orig/32)%uint64(c21E)) // m takes every value 0..E-1
	m := int(slot % c21E)
	g := c21Graph{Slot: slot, Gap: gap, N: -1, Xi: make([][]int, c21E)}
	for _, k := range xi {
		g.Xi[k%c21E] = append(g.Xi[k%c21E], k)
	}
	for i := 0; i < f.n; i++ {
		r := c21Report{ID: i + 1, Hash: rgs[i]}
		var deps []int
		for k := 0; k < f.U; k++ {
			if dm[i]>>uint(k)&1 == 1 {
				deps = append(deps, k)
			}
		}
		switch loc[i] {
		case 0:
			r.Loc = m
			r.Deps = deps
			r.Prereq = deps
		case 1:
			r.Loc = (m + c21E - 1) % c21E
			r.Deps = deps
			r.Prereq = deps
		default:
			r.Loc = -1
			for j, d := range deps {
				switch kind {
				case 0:
					r.Prereq = append(r.Prereq, d)
				case 1:
					r.Lookup = append(r.Lookup, d)
				case 2:
					if j%2 == 0 {
						r.Prereq = append(r.Prereq, d)
					} else {
						r.Lookup = append(r.Lookup, d)
					}
				default:
					r.Prereq = append(r.Prereq, d)
					r.Lookup = append([]int{d}, r.Lookup...)
				}
			}
		}
		g.Reports = append(g.Reports, r)
	}
	return g
}

func c21Enumerate(s *kit.Session, sub string, fams []*c21Family) {
	if kit.EnumSub(s, sub, c21CheckGraph) {
		return
	}
	var global uint64
	for _, f := range fams {
		sz := f.size()
		for i := uint64(0); i < sz; i++ {
			if int(global%uint64(s.NShards)) == s.Shard {
				if !kit.Each(s, sub, f.at(i), c21CheckGraph) {
					return
				}
			}
			global++
		}
		s.Note("%s: family reports=%d universe=%d xi-subsets=%s locations=%d fully enumerated: %d cases (x every n in 0..|W*|)", sub, f.n, f.U, []string{"all", "size<=1"}[f.xiMode], f.nloc, sz)
	}
}

// c21GenFamily4 samples the 4-report family (quick tier).
func c21GenFamily4(f *c21Family) func(rt *rapid.T) c21Graph {
	return func(rt *rapid.T) c21Graph {
		return f.at(rapid.Uint64Range(0, f.size()-1).Draw(rt, "case"))
	}
}

// ---- random graphs ---------------------------------------------------------------------------

func c21GenGraph(rt *rapid.T) c21Graph {
	nrep := rapid.OneOf(rapid.IntRange(0, 6), rapid.IntRange(0, 40)).Draw(rt, "nrep")
	consistent := rapid.IntRange(0, 2).Draw(rt, "consistent") != 0
	ext := rapid.IntRange(1, 6).Draw(rt, "ext")
	gap := rapid.SampledFrom(c21Gaps).Draw(rt, "gap")
	slot := gap + rapid.Uint32Range(0, 1<<20).Draw(rt, "slot")
	m := int(slot % c21E)
	g := c21Graph{Slot: slot, Gap: gap, Xi: make([][]int, c21E)}
	// hash indices: 0..nrep-1 for the reports, nrep..nrep+ext-1 accumulated (in xi), nrep+ext.. unknown
	for k := 0; k < ext; k++ {
		if rapid.IntRange(0, 2).Draw(rt, "in_xi") != 0 {
			i := rapid.IntRange(0, c21E-1).Draw(rt, "xi_slot")
			g.Xi[i] = append(g.Xi[i], nrep+k)
		}
	}
	anyHash := func(label string) int { return rapid.IntRange(0, nrep+ext+1).Draw(rt, label) }
	for i := 0; i < nrep; i++ {
		r := c21Report{ID: i + 1, Hash: i}
		if !consistent && rapid.IntRange(0, 7).Draw(rt, "odd_hash") == 0 {
			r.Hash = anyHash("hash") // duplicate package hash, or a package already in xi
		}
		nd := rapid.SampledFrom([]int{0, 0, 0, 1, 1, 1, 2, 2, 3, 5}).Draw(rt, "ndeps")
		var deps []int
		for j := 0; j < nd; j++ {
			switch rapid.IntRange(0, 9).Draw(rt, "dep_kind") {
			case 0, 1, 2, 3, 4: // another report, preferring earlier ones (chains that resolve)
				if i > 0 && rapid.IntRange(0, 3).Draw(rt, "earlier") != 0 {
					deps = append(deps, rapid.IntRange(0, i-1).Draw(rt, "dep"))
				} else if nrep > 0 {
					deps = append(deps, rapid.IntRange(0, nrep-1).Draw(rt, "dep"))
				}
			case 5, 6, 7:
				deps = append(deps, nrep+rapid.IntRange(0, ext-1).Draw(rt, "dep_ext"))
			default:
				deps = append(deps, anyHash("dep_any"))
			}
		}
		if rapid.IntRange(0, 1).Draw(rt, "in_W") == 0 {
			r.Loc = -1
			for _, d := range deps {
				switch rapid.IntRange(0, 4).Draw(rt, "carrier") {
				case 0, 1:
					r.Prereq = append(r.Prereq, d)
				case 2, 3:
					r.Lookup = append(r.Lookup, d)
				default:
					r.Prereq = append(r.Prereq, d)
					r.Lookup = append(r.Lookup, d)
				}
			}
		} else {
			r.Loc = rapid.OneOf(rapid.SampledFrom([]int{m, (m + 1) % c21E, (m + c21E - 1) % c21E}), rapid.IntRange(0, c21E-1)).Draw(rt, "loc")
			xi := c21SetOf(g.Xi...)
			seen := c21Set{}
			for _, d := range deps {
				if seen[d] || (consistent && xi[d]) {
					continue // a stored dependency set; in a consistent state it holds nothing accumulated
				}
				seen[d] = true
				r.Deps = append(r.Deps, d)
			}
			r.Prereq = r.Deps
		}
		g.Reports = append(g.Reports, r)
	}
	g.N = rapid.OneOf(rapid.Just(-1), rapid.IntRange(0, nrep)).Draw(rt, "n")
	if nrep > 10 && g.N < 0 {
		g.N = nrep // big graphs: one n (clipped to |W*|)
	}
	return g
}

// ---- histories ----------------------------------------------------------------------------------

type c21Block struct {
	Gap     uint32      `json:"gap"`
	Reports []c21Report `json:"reports"` // newly available, Loc ignored
	N       int         `json:"n"`       // clipped to [0, |W*|]
}

type c21History struct {
	Tau0   uint32      `json:"tau0"`
	Xi     [][]int     `json:"xi"`     // initial xi
	Queued []c21Report `json:"queued"` // initial theta (Loc = slot, Deps = stored set)
	Blocks []c21Block  `json:"blocks"`
}

func c21GenHistory(rt *rapid.T) c21History {
	h := c21History{Tau0: rapid.Uint32Range(0, 1<<16).Draw(rt, "tau0"), Xi: make([][]int, c21E)}
	st := c21NewState(c21E)
	st.Tau = h.Tau0
	next := 0 // next never-used hash index
	nextID := 1
	fresh := func() int { next++; return next - 1 }
	nextUnk := 0 // hashes nobody has reported yet (kept apart from the dense range)
	unk := func() int { nextUnk++; return 100000 + nextUnk }
	// optional consistent initial state
	if rapid.IntRange(0, 2).Draw(rt, "init") == 0 {
		for i := 0; i < c21E; i++ {
			for k := rapid.IntRange(0, 2).Draw(rt, "nxi"); k > 0; k-- {
				x := fresh()
				h.Xi[i] = append(h.Xi[i], x)
				st.Xi[i][x] = true
			}
		}
		for k := rapid.IntRange(0, 5).Draw(rt, "nqueued"); k > 0; k-- {
			r := c21Report{ID: nextID, Hash: fresh(), Loc: rapid.IntRange(0, c21E-1).Draw(rt, "qloc")}
			nextID++
			for d := rapid.IntRange(1, 2).Draw(rt, "qnd"); d > 0; d-- {
				r.Deps = append(r.Deps, unk()) // not yet reported; may be reported by a later block
			}
			r.Prereq = r.Deps
			h.Queued = append(h.Queued, r)
			st.Theta[r.Loc] = append(st.Theta[r.Loc], c21Rec{r.ID, r.Hash, c21SetOf(r.Deps)})
		}
	}
	var retired []int // hashes that have dropped out of xi (may be reported again)
	nb := rapid.OneOf(rapid.IntRange(1, 8), rapid.IntRange(1, 30)).Draw(rt, "nblocks")
	for b := 0; b < nb; b++ {
		gap := rapid.SampledFrom([]uint32{1, 1, 1, 1, 1, 1, 2, 2, 3, 5, c21E - 1, c21E, c21E + 1, c21E + 2}).Draw(rt, "gap")
		slot := st.Tau + gap
		// hashes that queued reports are waiting for and nobody has provided yet
		xiU := st.unionXi()
		inQueue := c21Set{}
		var wanted, queuedHashes []int
		for _, t := range st.Theta {
			for _, e := range t {
				inQueue[e.Hash] = true
				queuedHashes = append(queuedHashes, e.Hash)
			}
		}
		for _, t := range st.Theta {
			for _, e := range t {
				for _, d := range e.Deps.sorted() {
					if !inQueue[d] && !xiU[d] {
						wanted = append(wanted, d)
					}
				}
			}
		}
		nw := rapid.SampledFrom([]int{0, 1, 1, 2, 2, 2, 3, 4}).Draw(rt, "nW")
		used := c21Set{}
		var W []c21Report
		hashes := make([]int, nw)
		for i := 0; i < nw; i++ {
			// choose a package hash that is neither accumulated, queued nor used in this block
			hsh := -1
			switch rapid.IntRange(0, 5).Draw(rt, "hash_src") {
			case 0, 1, 2:
				if len(wanted) > 0 {
					hsh = wanted[rapid.IntRange(0, len(wanted)-1).Draw(rt, "wanted")]
				}
			case 3:
				if len(retired) > 0 {
					hsh = retired[rapid.IntRange(0, len(retired)-1).Draw(rt, "retired")]
				}
			}
			if hsh < 0 || used[hsh] || xiU[hsh] || inQueue[hsh] {
				hsh = fresh()
			}
			used[hsh] = true
			hashes[i] = hsh
		}
		for i := 0; i < nw; i++ {
			r := c21Report{ID: nextID, Hash: hashes[i], Loc: -1}
			nextID++
			nd := rapid.SampledFrom([]int{0, 0, 1, 1, 1, 2, 2, 3}).Draw(rt, "ndeps")
			for j := 0; j < nd; j++ {
				d := -1
				switch rapid.IntRange(0, 9).Draw(rt, "dep_src") {
				case 0, 1, 2: // another report of this block (before or after: cycles possible)
					d = hashes[rapid.IntRange(0, nw-1).Draw(rt, "dep_w")]
				case 3, 4: // a queued report
					if len(queuedHashes) > 0 {
						d = queuedHashes[rapid.IntRange(0, len(queuedHashes)-1).Draw(rt, "dep_q")]
					}
				case 5, 6: // something already accumulated
					if u := xiU.sorted(); len(u) > 0 {
						d = u[rapid.IntRange(0, len(u)-1).Draw(rt, "dep_xi")]
					}
				case 7, 8: // a package some later block may report
					d = unk()
				default:
					if len(retired) > 0 {
						d = retired[rapid.IntRange(0, len(retired)-1).Draw(rt, "dep_ret")]
					}
				}
				if d < 0 {
					d = unk()
				}
				if rapid.IntRange(0, 2).Draw(rt, "carrier") == 0 {
					r.Lookup = append(r.Lookup, d)
				} else {
					r.Prereq = append(r.Prereq, d)
				}
			}
			W = append(W, r)
		}
		ref := c21RefSelect(st, slot, W)
		n := len(ref.WStar)
		if rapid.IntRange(0, 4).Draw(rt, "partial") == 0 {
			n = rapid.IntRange(len(ref.WBang), len(ref.WStar)).Draw(rt, "n")
		}
		h.Blocks = append(h.Blocks, c21Block{Gap: gap, Reports: W, N: n})
		retired = append(retired, st.Xi[0].sorted()...) // sorted: no map-order dependence in the generator
		st = c21RefAdvance(st, slot, ref, n)
	}
	return h
}

func c21CheckHistory(c *kit.Case, in c21History) {
	if len(in.Xi) > c21E || len(in.Blocks) > 64 || len(in.Queued) > 64 {
		return
	}
	st := c21NewState(c21E)
	st.Tau = in.Tau0
	byID := map[int]c21Report{}
	reg := func(r c21Report) bool {
		if _, dup := byID[r.ID]; dup || r.ID < 0 || r.ID > 1<<20 || r.Hash < 0 || r.Hash > 1<<20 {
			return false
		}
		c21HashBytes(r.Hash)
		for _, l := range [][]int{r.Prereq, r.Lookup, r.Deps} {
			for _, k := range l {
				if k < 0 || k > 1<<20 {
					return false
				}
				c21HashBytes(k)
			}
		}
		byID[r.ID] = r
		return true
	}
	for i, x := range in.Xi {
		for _, k := range x {
			if k < 0 || k > 1<<20 {
				return
			}
			c21HashBytes(k)
			st.Xi[i][k] = true
		}
	}
	for _, r := range in.Queued {
		if !reg(r) || r.Loc < 0 || r.Loc >= c21E {
			return
		}
		st.Theta[r.Loc] = append(st.Theta[r.Loc], c21Rec{r.ID, r.Hash, c21SetOf(r.Deps)})
	}
	if !c21Consistent(st, nil) {
		return // outside the domain of the history sub-property
	}
	cs := c21Prime(st, byID)
	nontrivial := false
	everAccumulated := map[int]int{} // hash -> block index of its latest accumulation
	for bi, blk := range in.Blocks {
		if blk.Gap < 1 || blk.Gap > 1000 || len(blk.Reports) > 16 {
			return
		}
		W := make([]c21Report, len(blk.Reports))
		for i, r := range blk.Reports {
			r.Loc = -1
			if !reg(r) {
				return
			}
			W[i] = r
		}
		if !c21Consistent(st, W) {
			c.Class("history_cut_at_inconsistent_block")
			break // a new report is already in xi/theta: report validation excludes this
		}
		slot := st.Tau + blk.Gap
		tag := "block " + itoa(bi)
		ref := c21RefSelect(st, slot, W)
		n := blk.N
		if n < 0 {
			n = 0
		}
		if n > len(ref.WStar) {
			n = len(ref.WStar)
		}
		sel := c21ImplSelect(cs, slot, W)
		c21CmpReports(c, tag+" W!", sel.WBang, ref.WBang)
		c21CmpQueue(c, tag+" WQ", sel.WQ, ref.WQ)
		c21CmpReports(c, tag+" W*", sel.WStar, ref.WStar)
		want := c21RefAdvance(st, slot, ref, n)
		updateXi(cs, types.U64(n))
		updateVartheta(cs)
		postXi := cs.GetPosteriorStates().GetXi()
		postTh := cs.GetPosteriorStates().GetVartheta()
		c21CmpXi(c, tag+" xi'", postXi, want.Xi)
		if len(postTh) != c21E {
			c.Failf("%s: theta' has %d entries", tag, len(postTh))
		}
		for k := range want.Theta {
			c21CmpQueue(c, tag+" theta'["+itoa(k)+"]", postTh[k], want.Theta[k])
		}
		c21Invariants(c, tag, st, sel, n, true, postXi, postTh)
		// the transition only READS the prior state (a sibling block or a retry runs on the same
		// parent state): the prior xi and theta held by the chain state are what they were
		c21CmpXi(c, tag+" PRIOR xi after the transition", cs.GetPriorStates().GetXi(), st.Xi)
		if priorTh := cs.GetPriorStates().GetVartheta(); len(priorTh) == c21E {
			for k := range st.Theta {
				c21CmpQueue(c, tag+" PRIOR theta["+itoa(k)+"] after the transition", priorTh[k], st.Theta[k])
			}
		}
		// no package accumulated twice while its earlier accumulation is still in xi
		for _, w := range sel.WStar[:n] {
			k := c21HashIndex(c, w.PackageSpec.Hash)
			if prev, ok := everAccumulated[k]; ok && bi-prev <= c21E {
				c.Failf("%s: package %d accumulated again, %d blocks after its previous accumulation", tag, k, bi-prev)
			}
			everAccumulated[k] = bi
		}
		// classes
		if ref.NonTriv {
			nontrivial = true
			c.Class("block_queued_report_readied_in_block")
		}
		if blk.Gap > 1 {
			c.Class("block_slot_gap_gt1")
		}
		if blk.Gap >= c21E {
			c.Class("block_slot_gap_ge_E")
		}
		if n < len(ref.WStar) {
			c.Class("block_partial_accumulation")
		}
		fromTheta := false
		inW := map[int]bool{}
		for _, w := range W {
			inW[w.ID] = true
		}
		for _, e := range ref.WStar {
			if !inW[e.ID] {
				fromTheta = true
			}
		}
		if fromTheta {
			c.Class("block_report_from_earlier_block_becomes_ready")
		}
		c21Commit(cs)
		st = want
	}
	if nontrivial {
		c.NonTrivial()
	}
}

func TestVerif_C21(t *testing.T) {
	s := kit.Begin(t, "C21")
	defer s.Finish()
	logger.GetLogger("main").Disable()
	defer debug.SetGCPercent(debug.SetGCPercent(400)) // many short-lived singletons: fewer GC cycles
	types.SetTinyMode()
	if types.EpochLength != c21E {
		t.Fatalf("tiny epoch length is %d, harness assumes %d", types.EpochLength, c21E)
	}
	s.SetExhaustive(false)

	// quick: 3 reports with |xi| <= 1 (all xi subsets for <= 2 reports); thorough: all xi subsets
	le3 := []*c21Family{c21NewFamily(1, 3, 0, 3), c21NewFamily(2, 4, 0, 3), c21NewFamily(3, 4, s.Pick(1, 0), 3)}
	c21Enumerate(s, "enum_graphs_le3", le3)

	f4 := c21NewFamily(4, 4, 1, 2)
	if s.Thorough() {
		c21Enumerate(s, "enum_graphs_4", []*c21Family{f4})
	} else {
		kit.Run(s, "enum_graphs_4", kit.N{Quick: 120000, Thorough: 120000}, c21GenFamily4(f4), c21CheckGraph)
	}
	kit.Run(s, "random_graphs", kit.N{Quick: 40000, Thorough: 1500000}, c21GenGraph, c21CheckGraph)
	kit.Run(s, "histories", kit.N{Quick: 6000, Thorough: 250000}, c21GenHistory, c21CheckHistory)
}
