#!/usr/bin/env python3
"""prints the prompt for a seeding sub-agent for property <ID> and creates its worktree"""
import json, sys, subprocess, os
pid = sys.argv[1]
props = {json.loads(l)['id']: json.loads(l) for l in open('/verif/properties.jsonl') if l.strip()}
p = props[pid]
wt = '/tmp/seed_wt_%s' % pid
if not os.path.exists(wt):
    subprocess.run(['git', '-C', '/repo', 'worktree', 'add', '-q', '--detach', wt, 'HEAD'], check=True)
os.makedirs('/tmp/seed_out/%s' % pid, exist_ok=True)
print("""Read /tmp/seedkit/SEED_BRIEF.md and follow it exactly. Your worktree is %s (a git worktree of the repository; work only there). Your property id is %s; outputs go to /tmp/seed_out/%s/ (and /tmp/seed_out/%sb/ for an optional second change).

PROPERTY %s — %s
Statement: %s
Quantified over: %s
Code the property is anchored in: %s

Do not read or use anything under /verif. Final message: a short description of the change(s), the trigger needed, and the before/after results of your demonstration and of the existing tests.""" % (wt, pid, pid, pid, pid, p['title'], p['statement'], p['quantifier']['text'], ', '.join(p['anchors']['files'])))
