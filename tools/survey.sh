#!/bin/bash
# survey mode: tally divergence classes without failing (development aid)
cd /verif && VERIF_SURVEY=1 ./check "$@" 2>&1 | tail -4
python3 - "$1" <<'PY'
import json,sys
e=json.load(open('/verif/evidence/%s.json'%sys.argv[1]))
cl=e['coverage']['classes']
div={k:v for k,v in cl.items() if k.startswith('DIV:')}
import re
agg={}
for k,v in div.items():
    kk=re.sub(r'\[.*','[...]',k)
    kk=re.sub(r'#x#?[0-9a-f#]*','#x',kk)
    agg[kk]=agg.get(kk,0)+v
print('--- divergence classes (aggregated)')
for k,v in sorted(agg.items(), key=lambda x:-x[1])[:25]: print(v,k)
print('--- other classes')
for k,v in sorted(((k,v) for k,v in cl.items() if not k.startswith('DIV:')), key=lambda x:-x[1])[:20]: print(v,k)
print(e['coverage']['sub_properties'])
PY
