#!/usr/bin/env python3
"""Generates seeded/README.md: one row per kept seeded change."""
import json, os, glob
V = os.path.dirname(os.path.dirname(os.path.abspath(__file__)))
rows = []
for d in sorted(glob.glob(os.path.join(V, 'seeded', '*', 'meta.json'))):
    m = json.load(open(d))
    rows.append((os.path.basename(os.path.dirname(d)), m))
out = ["# Seeded changes (independent sub-agents, given only the property text)", "",
       "| seed | property | needs to manifest | caught | how |", "|---|---|---|---|---|"]
def cell(s, n=220):
    s = (s or '').replace('|', '\\|').replace('\n', ' ')
    return s if len(s) <= n else s[:n] + '…'
for name, m in rows:
    out.append("| %s | %s | %s | %s | %s |" % (name, m['property'], cell(m.get('needs_to_manifest')), m['check_result']['caught'], cell(m['check_result']['how'])))
open(os.path.join(V, 'seeded', 'README.md'), 'w').write("\n".join(out) + "\n")
print(len(rows), 'seeds')
