#!/bin/bash
# usage: keep_seed.sh <seed name> <property ID> <seed dir> <caught yes|no|after-strengthening> "<what ran / which sub-check caught it>"
NAME=$1; ID=$2; DIR=$3; CAUGHT=$4; NOTE=$5
D=/verif/seeded/$NAME; mkdir -p $D
cp $DIR/patch.diff $D/; cp $DIR/*_test.go $D/ 2>/dev/null
python3 - "$DIR/meta.json" "$D/meta.json" "$ID" "$CAUGHT" "$NOTE" <<'PY'
import json,sys
m=json.load(open(sys.argv[1]))
out={"property":sys.argv[3],"breaks":m.get("summary"),"needs_to_manifest":m.get("needs"),"files":m.get("files"),"demo_cmd":m.get("demo_cmd"),
 "author_ran":m.get("ran"),
 "confirmed":"tools/confirm_seed.sh: in a fresh scratch worktree of /repo HEAD the demonstration passes without the change and fails with it; the 229-test baseline of the touched packages still passes with it",
 "check_result":{"caught":sys.argv[4],"how":sys.argv[5],"cmd":"tools/try_seed.sh %s <dir>  (applies patch.diff to a scratch worktree and runs ./check %s --tier quick with VERIF_REPO pointing at it)"%(sys.argv[3],sys.argv[3])}}
json.dump(out,open(sys.argv[2],'w'),indent=1)
PY
echo kept $D
