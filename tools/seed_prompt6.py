#!/usr/bin/env python3
"""round-3 seeding prompt (outputs <ID>e, <ID>f) for property <ID>: lists the changes already tried so that new ones differ"""
import json, sys, subprocess, os, glob
pid = sys.argv[1]
props = {json.loads(l)['id']: json.loads(l) for l in open('/verif/properties.jsonl') if l.strip()}
p = props[pid]
wt = '/tmp/seed_wt_%s' % pid
if not os.path.exists(wt):
    subprocess.run(['git', '-C', '/repo', 'worktree', 'add', '-q', '--detach', wt, 'HEAD'], check=True)
tried = []
for m in sorted(glob.glob('/verif/seeded/*/meta.json')):
    d = json.load(open(m))
    if d['property'] == pid:
        tried.append('- ' + (d.get('breaks') or '')[:600])
print("""Read /tmp/seedkit/SEED_BRIEF.md and follow it exactly. Your worktree is %s (a git worktree of the repository; work only there). Your property id is %s; this is a SIXTH round: write your outputs to /tmp/seed_out/%sk/ (and /tmp/seed_out/%sl/ for an optional second change) — same three files each (patch.diff, demonstration test file(s), meta.json).

PROPERTY %s — %s
Statement: %s
Quantified over: %s
Code the property is anchored in: %s

Changes ALREADY TRIED in earlier rounds (do NOT repeat these, close variants of them, or the same site with the same trigger):
%s

This round, aim for a change of a DIFFERENT kind and at a DIFFERENT site: prefer (a) two cooperating edits that each look harmless alone, (b) a fault/ordering that only a multi-step history exposes (state left behind by an earlier operation, an error path taken after partial work, a retry, an eviction, a rollback), (c) an aliasing bug (a slice/map shared between a value handed out earlier and live state) whose effect shows only when the older value is looked at again, or (d) a boundary deep in the input space (a specific length/count/slot relation) that random uniform inputs essentially never hit. Avoid 'first obvious input fails' changes.
Do not read or use anything under /verif. Never use git stash. Use only /tmp paths containing your property id for scratch files. Final message: a short description of the change(s), the trigger needed, and the before/after results of your demonstration and of the existing tests.""" % (wt, pid, pid, pid, pid, p['title'], p['statement'], p['quantifier']['text'], ', '.join(p['anchors']['files']), '\n'.join(tried) or '(none)'))
