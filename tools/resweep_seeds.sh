#!/bin/bash
# Re-runs every kept seeded change against /repo HEAD: applies seeded/<name>/patch.diff to a scratch
# worktree, runs the property's quick check (VERIF_REPO=<worktree>, evidence not touched: --keep off,
# evidence of the real tree is regenerated afterwards by run_all.sh) and prints one line per seed.
# usage: resweep_seeds.sh [jobs]   (seeds of one property run sequentially, properties in parallel)
JOBS=${1:-4}
cd /verif
one_prop() {
  id=$1
  for d in seeded/$id-*; do
    [ -f $d/patch.diff ] || continue
    # a seed recorded as caught by another property's check (meta.json check_result.caught = "...-by-CNN") runs that check
    by=$(python3 -c "import json,re;m=re.search(r'by-(C[0-9]+)',json.load(open('$d/meta.json')).get('check_result',{}).get('caught',''));print(m.group(1) if m else '$id')")
    tier=$(python3 -c "import json;print('thorough' if json.load(open('$d/meta.json')).get('check_result',{}).get('caught','')=='thorough' else 'quick')")
    out=$(TAILN=4 tools/try_seed.sh $by /verif/$d $tier 2>&1); rc=$?
    if echo "$out" | grep -q "PATCH DOES NOT APPLY"; then st=NOAPPLY
    elif echo "$out" | grep -q "^VIOLATION"; then st=CAUGHT
    elif [ $rc -eq 0 ]; then st=MISSED
    else st="RC$rc"; fi
    echo "$st $d (check $by) $(echo "$out" | grep -E 'INCONCLUSIVE' | head -1 | cut -c1-120)"
  done
}
export -f one_prop
ls seeded | grep -v README | sed 's/-.*//' | sort -u | xargs -P $JOBS -I{} bash -c 'one_prop {}'
