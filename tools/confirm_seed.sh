#!/bin/bash
# usage: confirm_seed.sh <seed dir> [test-run-regex]; confirms in a fresh scratch worktree that (1) the demonstration
# passes without the change, (2) fails with it, (3) the stable baseline tests of the touched packages still pass.
DIR=$(realpath $1)
WT=/tmp/confirm_seed_$$
git -C /repo worktree add -q --detach $WT HEAD || exit 3
trap "git -C /repo worktree remove --force $WT" EXIT
cd $WT
export JAM_FUZZ=1 GOFLAGS=-mod=mod GOPROXY=off GOTOOLCHAIN=auto
[ -x /tmp/seedkit/mkoverlay.sh ] || /verif/tools/seedkit/install.sh >/dev/null
OV=$(/tmp/seedkit/mkoverlay.sh $WT erasure)
# place each demonstration file into the package directory whose package clause matches
PKGS=""
for f in $DIR/*_test.go; do
  pk=$(grep -m1 '^package ' $f | awk '{print $2}')
  cands=$( (grep '^+++ b/' $DIR/patch.diff | sed 's|^+++ b/||' | xargs -n1 dirname; python3 -c "import json,re;print('\n'.join(re.findall(r'\./([A-Za-z0-9_/]+)', json.load(open('$DIR/meta.json'))['demo_cmd'])))") | sort -u)
  for d in $cands; do
    [ -d "$WT/$d" ] || continue
    dp=$(grep -h -m1 '^package ' $WT/$d/*.go 2>/dev/null | head -1 | awk '{print $2}')
    if [ "$dp" = "$pk" ] || [ "${dp}_test" = "$pk" ]; then cp $f $WT/$d/; PKGS="$PKGS ./$d/"; break; fi
  done
done
PKGS=$(echo $PKGS | tr ' ' '\n' | sort -u | tr '\n' ' ')
RUN=${2:-TestSeedDemo}
go test -overlay $OV -vet=off -count=1 -run "$RUN" $PKGS > /tmp/confirm_$$.before 2>&1; rb=$?
git apply --whitespace=nowarn $DIR/patch.diff || { echo "PATCH DOES NOT APPLY"; exit 3; }
go test -overlay $OV -vet=off -count=1 -run "$RUN" $PKGS > /tmp/confirm_$$.after 2>&1; ra=$?
echo "demo ($PKGS) without change: rc=$rb ($(tail -1 /tmp/confirm_$$.before | cut -c1-70)); with change: rc=$ra ($(grep -m1 -E -- '--- FAIL|panic' /tmp/confirm_$$.after | cut -c1-90))"
find $WT -name '*seed_demo*_test.go' -delete
TP=$(git diff --name-only | xargs -n1 dirname | sort -u | sed 's|^|./|; s|$|/...|' | tr '\n' ' ')
BASELINE_REPO=$WT python3 /verif/tools/baseline_check.py $TP | tail -2
rm -f /tmp/confirm_$$.*
[ $rb -eq 0 ] && [ $ra -ne 0 ]
