#!/bin/bash
# usage: confirm_seed.sh <seed dir> ; confirms in a fresh scratch worktree that (1) the demonstration passes without
# the change, (2) fails with it, (3) the repository's stable baseline tests of the touched packages still pass with it.
DIR=$(realpath $1)
WT=/tmp/confirm_seed_$$
git -C /repo worktree add -q --detach $WT HEAD || exit 3
trap "git -C /repo worktree remove --force $WT" EXIT
CMD=$(python3 -c "import json;print(json.load(open('$DIR/meta.json'))['demo_cmd'])")
PKG=$(echo "$CMD" | grep -o '\./[A-Za-z_/]*' | tail -1)
for f in $DIR/*_test.go; do cp $f $WT/$PKG/; done
cd $WT
export JAM_FUZZ=1
/tmp/seedkit/mkoverlay.sh $WT erasure >/dev/null
bash -c "$CMD" > /tmp/confirm_$$.before 2>&1; rb=$?
git apply --whitespace=nowarn $DIR/patch.diff || { echo "PATCH DOES NOT APPLY"; exit 3; }
bash -c "$CMD" > /tmp/confirm_$$.after 2>&1; ra=$?
echo "demo without change: rc=$rb ($(tail -1 /tmp/confirm_$$.before | cut -c1-80)); with change: rc=$ra ($(grep -m1 -E 'FAIL|panic' /tmp/confirm_$$.after | cut -c1-100))"
rm -f $WT/$PKG/*seed_demo_test.go
PKGS=$(git diff --name-only | xargs -n1 dirname | sort -u | sed 's|^|./|; s|$|/...|' | tr '\n' ' ')
BASELINE_REPO=$WT python3 /verif/tools/baseline_check.py $PKGS | tail -3
rm -f /tmp/confirm_$$.*
[ $rb -eq 0 ] && [ $ra -ne 0 ]
