#!/usr/bin/env python3
"""Generates /verif/FINDINGS.md from known_findings.d/*.json (Appendix C of DESIGN.md)."""
import json, os, glob
V = os.path.dirname(os.path.dirname(os.path.abspath(__file__)))
rows = []
for f in sorted(glob.glob(os.path.join(V, 'known_findings.d', '*.json'))):
    for x in json.load(open(f)).get('findings', []):
        rows.append(x)
rows.sort(key=lambda x: (x.get('property', ''), x.get('id', '')))
out = ["# Findings (generated from known_findings.d by tools/gen_findings_md.py)", "",
       "`fixed` entries were repaired by a `fix:` commit in /repo and suppress nothing; `known` entries are genuine",
       "defects recorded rather than repaired: the check prints KNOWN-FINDING for them and reports any other violation.", ""]
out.append("## Repaired (fixed: lines)\n")
for x in rows:
    if x.get('status') == 'fixed':
        out.append("- " + x.get('fixed_line', "fixed: property=%s %s %s" % (x.get('property'), x.get('fixed_commit', '?'), x.get('what', ''))))
out.append("\n## Known (not repaired)\n")
for x in rows:
    if x.get('status') == 'known':
        out.append("- **%s** (property %s) — %s\n  - where: %s\n  - repro: %s\n  - why not repaired: %s" % (
            x.get('id'), x.get('property'), x.get('what', ''), x.get('where', ''), x.get('repro', ''), x.get('why_not_fixed', x.get('why_known', 'see notes/%s.md' % x.get('property')))))
open(os.path.join(V, 'FINDINGS.md'), 'w').write("\n".join(out) + "\n")
print(sum(1 for x in rows if x.get('status') == 'fixed'), 'fixed,', sum(1 for x in rows if x.get('status') == 'known'), 'known')
