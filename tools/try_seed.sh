#!/bin/bash
# usage: try_seed.sh <property ID> <dir with patch.diff> [tier]
# Applies a seeded change to a scratch worktree of /repo HEAD and runs the property's check against it.
ID=$1; DIR=$2; TIER=${3:-quick}
WT=/tmp/try_seed_$$
git -C /repo worktree add -q --detach $WT HEAD || exit 3
if ! git -C $WT apply --whitespace=nowarn "$DIR/patch.diff"; then echo "PATCH DOES NOT APPLY"; git -C /repo worktree remove --force $WT; exit 3; fi
cd /verif && VERIF_REPO=$WT ./check $ID --tier $TIER 2>&1 | grep -v "^KNOWN-FINDING" | tail -${TAILN:-6}
rc=${PIPESTATUS[0]}
git -C /repo worktree remove --force $WT
exit $rc
