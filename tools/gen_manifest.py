#!/usr/bin/env python3
"""Regenerates /verif/MANIFEST.json from checks.json (claimed checks) and
not_applicable.json (reasons for the rest). Every property of properties.jsonl is
either claimed or listed under not_applicable."""
import json, os
V = os.path.dirname(os.path.dirname(os.path.abspath(__file__)))
specs = {n[:-5]: json.load(open(os.path.join(V, "checks.d", n))) for n in sorted(os.listdir(os.path.join(V, "checks.d"))) if n.endswith(".json")}
na = json.load(open(os.path.join(V, "not_applicable.json")))
props = [json.loads(l) for l in open(os.path.join(V, "properties.jsonl")) if l.strip()]
checks = []
napp = []
for p in props:
    pid = p["id"]
    if pid in specs:
        s = specs[pid]
        checks.append({
            "property_id": pid,
            "quick_cmd": "./check %s --tier quick" % pid,
            "thorough_cmd": "./check %s --tier thorough" % pid,
            "evidence_file": "/verif/evidence/%s.json" % pid,
            "replay_cmd_template": "./check %s --replay {path}" % pid,
            "engine": "rapid-pbt",
            "level_claimed": {
                "category": s.get("level", "exploration"),
                "text": s["level_text"],
                "design_ref": "DESIGN.md section 3, " + pid,
            },
            "level_note": s["level_note"],
            "technique": s["technique"],
        })
    else:
        napp.append({"property_id": pid, "reason": na.get(pid, "check not built yet in this session; no claim is made")})
m = {
    "version": 1,
    "setup_cmd": "bash setup.sh",
    "hooks": {
        "guard": "verif",
        "enable": "no committed hooks: harness files, the shared kit, reference models and the VRF/erasure stand-ins are injected at build time with `go test -overlay` and an alternate -modfile from /verif (build tag `verif` is passed but guards nothing in /repo)",
        "baseline_off_cmd": "cd /repo && for p in ./PVM/... ./internal/... ./pkg/... ./logger/... ./cmd/...; do GOFLAGS=-mod=mod go test -vet=off -count=1 -timeout 25m $p; done",
        "source_commits": [],
        "add_only": True,
    },
    "engines": [
        {"name": "rapid-pbt", "path": "/verif/check", "serves_properties": [c["property_id"] for c in checks],
         "kind_free_text": "property-based testing with pgregory.net/rapid v1.3.0 (sharded over 16 processes, seed from VERIF_SEED), explicit reference-model / round-trip / differential / metamorphic oracles, shrunk failures saved as JSON replays re-run without the library; native go fuzzing only in thorough tiers"}
    ],
    "checks": checks,
    "not_applicable": napp,
    "notes": "See DESIGN.md. Exit codes of ./check: 0 held, 1 violation (VIOLATION line), 2 inconclusive (build failure/timeout/worker death that does not reproduce). known_findings.json lists genuine defects recorded rather than repaired; they print KNOWN-FINDING lines.",
}
json.dump(m, open(os.path.join(V, "MANIFEST.json"), "w"), indent=1)
print("claimed", len(checks), "not_applicable", len(napp))
