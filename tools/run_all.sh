#!/bin/bash
# runs every claimed check's quick (or given) tier sequentially; prints one line per check
TIER=${1:-quick}; shift
cd "$(dirname "$(readlink -f "$0")")/.."   # the tree this script belongs to (a vp snapshot runs its own copy)
IDS=${@:-$(ls checks.d | sed 's/.json//')}
for id in $IDS; do
  s=$(date +%s)
  out=$(./check $id --tier $TIER 2>&1); rc=$?
  e=$(date +%s)
  echo "$id rc=$rc $((e-s))s $(echo "$out" | grep -c '^KNOWN-FINDING') known | $(echo "$out" | grep -E "^$id |VIOLATION|INCONCLUSIVE" | tail -2 | tr '\n' ' ' | cut -c1-220)"
done
