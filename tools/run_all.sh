#!/bin/bash
# runs every claimed check's quick (or given) tier sequentially; prints one line per check
TIER=${1:-quick}; shift
cd /verif
IDS=${@:-$(ls checks.d | sed 's/.json//')}
for id in $IDS; do
  s=$(date +%s)
  out=$(./check $id --tier $TIER 2>&1); rc=$?
  e=$(date +%s)
  echo "$id rc=$rc $((e-s))s $(echo "$out" | grep -c '^KNOWN-FINDING') known | $(echo "$out" | grep -E "^$id |VIOLATION|INCONCLUSIVE" | tail -2 | tr '\n' ' ' | cut -c1-220)"
done
