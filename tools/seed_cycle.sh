#!/bin/bash
# usage: seed_cycle.sh <property ID> <seed dir> : confirm + run quick check against the seed
ID=$1; DIR=$2
echo "== $DIR"
/verif/tools/confirm_seed.sh $DIR 2>&1 | tail -3
TAILN=3 /verif/tools/try_seed.sh $ID $DIR quick; echo "check rc=$?"
