#!/usr/bin/env python3
"""Runs the repository's test suite (guard off, no overlay) for the given package
patterns (default: everything in BASELINE) and checks that every test listed as
stable_pass in /root/.vp/BASELINE.json still passes. Usage: baseline_check.py [./PVM/ ...]"""
import json, subprocess, sys, os
base = json.load(open('/root/.vp/BASELINE.json'))
stable = set(base['stable_pass'])
pats = sys.argv[1:] or ['./...']
env = dict(os.environ, GOFLAGS='-mod=mod', GOPROXY='off')
p = subprocess.run(['go', 'test', '-json', '-vet=off', '-count=1', '-timeout', '25m'] + pats, cwd=os.environ.get('BASELINE_REPO','/repo'), env=env,
                   stdout=subprocess.PIPE, stderr=subprocess.DEVNULL)
passed, failed, pkgs = set(), set(), set()
for line in p.stdout.decode(errors='replace').splitlines():
    try:
        e = json.loads(line)
    except Exception:
        continue
    if 'Package' in e:
        pkgs.add(e['Package'])
    if e.get('Test') and e.get('Action') in ('pass', 'fail'):
        (passed if e['Action'] == 'pass' else failed).add(e['Package'] + '::' + e['Test'])
want = {t for t in stable if t.split('::')[0] in pkgs}
missing = sorted(want - passed)
print('packages run: %d; stable tests expected here: %d; passing: %d; missing/failing: %d' % (len(pkgs), len(want), len(want & passed), len(missing)))
for m in missing[:40]:
    print('  NOT PASSING:', m)
sys.exit(1 if missing else 0)
