#!/bin/bash
# usage: mkoverlay.sh <worktree> [erasure]   -> prints path of an overlay.json for `go build/test -overlay`
# The repository imports a Bandersnatch VRF cgo sub-module that is absent offline; this overlay supplies a
# pure-Go stand-in so that packages importing internal/blockchain compile. With "erasure" it also replaces the
# cgo erasure-coding wrapper (needed to compile internal/work_package, internal/auditing, networking/handler/ce).
WT=$(realpath "$1"); OUT="$WT/.seed_overlay.json"
if [ "$2" = "erasure" ]; then
cat > "$OUT" <<J
{"Replace": {"$WT/pkg/Rust-VRF/vrf-func-ffi/src/vrf.go": "/tmp/seedkit/vrf.go", "$WT/pkg/erasure_coding/erasure_coding.go": "/tmp/seedkit/erasure_coding.go", "$WT/pkg/erasure_coding/erasure_coding_test.go": ""}}
J
else
cat > "$OUT" <<J
{"Replace": {"$WT/pkg/Rust-VRF/vrf-func-ffi/src/vrf.go": "/tmp/seedkit/vrf.go"}}
J
fi
echo "$OUT"
