#!/bin/bash
# Recreates /tmp/seedkit (what the seeding agents and tools/confirm_seed.sh use; seeding agents must not
# read /verif, so the kit lives under /tmp while a round runs): the brief, the overlay maker and copies of
# the VRF / erasure stand-ins.
set -e
H=$(cd "$(dirname "$0")" && pwd)
mkdir -p /tmp/seedkit
cp "$H/SEED_BRIEF.md" "$H/mkoverlay.sh" /tmp/seedkit/
cp "$H/../../standin/vrf/vrf.go" /tmp/seedkit/vrf.go
cp "$H/../../standin/erasure/erasure_coding.go" /tmp/seedkit/erasure_coding.go
chmod +x /tmp/seedkit/mkoverlay.sh
echo "/tmp/seedkit ready"
