// Package vrf is a pure-Go, deterministic STAND-IN for the missing
// pkg/Rust-VRF/vrf-func-ffi/src sub-module (a cgo wrapper around a Rust
// Bandersnatch library that is not present in this tree). It is injected with
// `go test -overlay` by /verif only; it is never committed to the repository.
//
// It is NOT cryptographically secure. It offers what the state-transition logic
// above it needs in order to be exercised:
//   - public key  pk = H("pk" || sk)
//   - VRF output  Y  = H("out" || pk || context)         (function of key+context only)
//   - IETF signature (96 B) = Y || H("sig" || pk || context || message) || 32 zero bytes
//   - ring proof (784 B)    = Y || pk || H("ring" || commitment || context || message || Y) || zero pad
//
// Verification recomputes the MACs; any tampering with context, message, key,
// or proof bytes is rejected. A ring proof is valid iff pk is a member of the
// ring and the MAC matches.
package vrf

import (
	"bytes"
	"errors"

	"golang.org/x/crypto/blake2b"
)

const (
	IETFSigSize    = 96
	RingProofSize  = 784
	CommitmentSize = 144
	KeySize        = 32
)

func h(tag string, parts ...[]byte) []byte {
	hh, _ := blake2b.New256(nil)
	hh.Write([]byte(tag))
	for _, p := range parts {
		var l [8]byte
		n := uint64(len(p))
		for i := 0; i < 8; i++ {
			l[i] = byte(n >> (8 * i))
		}
		hh.Write(l[:])
		hh.Write(p)
	}
	return hh.Sum(nil)
}

// GetPublicKeyFromSecret derives the stand-in public key of a secret seed.
func GetPublicKeyFromSecret(sk []byte) ([]byte, error) {
	if len(sk) == 0 {
		return nil, errors.New("vrf stand-in: empty secret")
	}
	return h("pk", sk), nil
}

func output(pk, context []byte) []byte { return h("out", pk, context) }

// IETFSign signs (context, message) with the secret seed sk.
func IETFSign(sk, context, message []byte) ([]byte, error) {
	pk, err := GetPublicKeyFromSecret(sk)
	if err != nil {
		return nil, err
	}
	return ietfSignPK(pk, context, message), nil
}

func ietfSignPK(pk, context, message []byte) []byte {
	sig := make([]byte, 0, IETFSigSize)
	sig = append(sig, output(pk, context)...)
	sig = append(sig, h("sig", pk, context, message)...)
	sig = append(sig, make([]byte, IETFSigSize-64)...)
	return sig
}

// IETFVerify verifies an IETF signature and returns its VRF output.
func IETFVerify(context, message, signature, pk []byte) ([]byte, error) {
	if len(signature) != IETFSigSize {
		return nil, errors.New("vrf stand-in: bad signature length")
	}
	if len(pk) != KeySize {
		return nil, errors.New("vrf stand-in: bad public key length")
	}
	want := ietfSignPK(pk, context, message)
	if !bytes.Equal(want, signature) {
		return nil, errors.New("vrf stand-in: invalid IETF signature")
	}
	return append([]byte(nil), signature[:32]...), nil
}

// VRFIetfOutput extracts the VRF output of an IETF signature (no verification).
func VRFIetfOutput(signature []byte) ([]byte, error) {
	if len(signature) != IETFSigSize {
		return nil, errors.New("vrf stand-in: bad signature length")
	}
	return append([]byte(nil), signature[:32]...), nil
}

// VerifyItem is one element of a batch ring verification.
type VerifyItem struct {
	Context   []byte
	Message   []byte
	Signature []byte
}

// VerifyResult is the outcome of one element of a batch ring verification.
type VerifyResult struct {
	Output []byte
	Error  error
}

// Verifier verifies ring proofs for a fixed ring.
type Verifier struct {
	ring       [][]byte
	commitment []byte
}

func splitRing(ring []byte, size uint) ([][]byte, error) {
	if uint(len(ring)) != size*KeySize {
		return nil, errors.New("vrf stand-in: ring length mismatch")
	}
	out := make([][]byte, size)
	for i := range out {
		out[i] = append([]byte(nil), ring[i*KeySize:(i+1)*KeySize]...)
	}
	return out, nil
}

func commitmentOf(ring []byte) []byte {
	c := make([]byte, 0, CommitmentSize)
	c = append(c, h("commit0", ring)...)
	c = append(c, h("commit1", ring)...)
	c = append(c, h("commit2", ring)...)
	c = append(c, h("commit3", ring)...)
	c = append(c, h("commit4", ring)[:16]...)
	return c
}

// NewVerifier builds a verifier over ring (size keys of 32 bytes).
func NewVerifier(ring []byte, size uint) (*Verifier, error) {
	keys, err := splitRing(ring, size)
	if err != nil {
		return nil, err
	}
	return &Verifier{ring: keys, commitment: commitmentOf(ring)}, nil
}

// Free is a no-op in the stand-in.
func (v *Verifier) Free() {}

// GetCommitment returns the 144-byte ring commitment.
func (v *Verifier) GetCommitment() ([]byte, error) {
	if v == nil {
		return nil, errors.New("vrf stand-in: nil verifier")
	}
	return append([]byte(nil), v.commitment...), nil
}

func ringMAC(commitment, context, message, out []byte) []byte {
	return h("ring", commitment, context, message, out)
}

// RingVerify verifies one ring proof and returns its VRF output.
func (v *Verifier) RingVerify(input, aux, proof []byte) ([]byte, error) {
	if v == nil {
		return nil, errors.New("vrf stand-in: nil verifier")
	}
	if len(proof) != RingProofSize {
		return nil, errors.New("vrf stand-in: bad ring proof length")
	}
	out, pk, mac := proof[:32], proof[32:64], proof[64:96]
	for _, b := range proof[96:] {
		if b != 0 {
			return nil, errors.New("vrf stand-in: invalid ring proof padding")
		}
	}
	member := false
	for _, k := range v.ring {
		if bytes.Equal(k, pk) {
			member = true
			break
		}
	}
	if !member {
		return nil, errors.New("vrf stand-in: signer not in ring")
	}
	if !bytes.Equal(out, output(pk, input)) {
		return nil, errors.New("vrf stand-in: invalid ring proof output")
	}
	if !bytes.Equal(mac, ringMAC(v.commitment, input, aux, out)) {
		return nil, errors.New("vrf stand-in: invalid ring proof")
	}
	return append([]byte(nil), out...), nil
}

// RingVerifyBatch verifies several ring proofs.
func (v *Verifier) RingVerifyBatch(items []VerifyItem) ([]VerifyResult, error) {
	if v == nil {
		return nil, errors.New("vrf stand-in: nil verifier")
	}
	res := make([]VerifyResult, len(items))
	for i, it := range items {
		o, err := v.RingVerify(it.Context, it.Message, it.Signature)
		res[i] = VerifyResult{Output: o, Error: err}
	}
	return res, nil
}

// Handler signs with a secret key as member proverIdx of a ring.
type Handler struct {
	ring       [][]byte
	commitment []byte
	sk         []byte
	pk         []byte
}

// NewHandler builds a prover/verifier for the given ring and secret.
func NewHandler(ring, sk []byte, ringSize, proverIdx uint) (*Handler, error) {
	keys, err := splitRing(ring, ringSize)
	if err != nil {
		return nil, err
	}
	pk, err := GetPublicKeyFromSecret(sk)
	if err != nil {
		return nil, err
	}
	if proverIdx >= ringSize {
		return nil, errors.New("vrf stand-in: prover index out of range")
	}
	return &Handler{ring: keys, commitment: commitmentOf(ring), sk: append([]byte(nil), sk...), pk: pk}, nil
}

// Free is a no-op in the stand-in.
func (hd *Handler) Free() {}

// IETFSign signs with the handler's key.
func (hd *Handler) IETFSign(context, message []byte) ([]byte, error) {
	return ietfSignPK(hd.pk, context, message), nil
}

// IETFVerify verifies an IETF signature made by ring member signerIdx.
func (hd *Handler) IETFVerify(context, message, signature []byte, signerIdx uint) ([]byte, error) {
	if signerIdx >= uint(len(hd.ring)) {
		return nil, errors.New("vrf stand-in: signer index out of range")
	}
	return IETFVerify(context, message, signature, hd.ring[signerIdx])
}

// RingSign produces a ring proof over (context, message).
func (hd *Handler) RingSign(context, message []byte) ([]byte, error) {
	return RingSignPK(hd.commitment, hd.pk, context, message), nil
}

// RingVerify verifies a ring proof against the handler's ring.
func (hd *Handler) RingVerify(context, message, proof []byte) ([]byte, error) {
	v := &Verifier{ring: hd.ring, commitment: hd.commitment}
	return v.RingVerify(context, message, proof)
}

// VRFIetfOutput extracts the output of an IETF signature.
func (hd *Handler) VRFIetfOutput(sig []byte) ([]byte, error) { return VRFIetfOutput(sig) }

// VRFRingOutput extracts the output of a ring proof.
func (hd *Handler) VRFRingOutput(proof []byte) ([]byte, error) {
	if len(proof) != RingProofSize {
		return nil, errors.New("vrf stand-in: bad ring proof length")
	}
	return append([]byte(nil), proof[:32]...), nil
}

// RingSignPK mints a ring proof for public key pk (stand-in only; used by the
// verification harness to author tickets).
func RingSignPK(commitment, pk, context, message []byte) []byte {
	out := output(pk, context)
	p := make([]byte, 0, RingProofSize)
	p = append(p, out...)
	p = append(p, pk...)
	p = append(p, ringMAC(commitment, context, message, out)...)
	p = append(p, make([]byte, RingProofSize-96)...)
	return p
}

// CommitmentOfRing exposes the stand-in ring commitment (harness use).
func CommitmentOfRing(ring []byte) []byte { return commitmentOf(ring) }
