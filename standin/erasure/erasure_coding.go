// Package erasurecoding: cgo-free STAND-IN for pkg/erasure_coding, injected by
// /verif with `go test -overlay` for packages that merely import it
// (work_package, ce handlers). Its output is never asserted by those checks
// (C30 uses the real wrapper + lib.rs). Systematic "code": data shards are the
// chunked data, parity shards are a hash-free XOR fold; decode only works from
// the data shards. Not an MDS code.
package erasurecoding

import (
	"errors"
	"fmt"
)

func EncodeDataShards(data []byte, dataShard, parityShard int) ([][]byte, error) {
	flat, err := EncodeData(data, dataShard, parityShard)
	if err != nil {
		return nil, err
	}
	numShards := dataShard + parityShard
	shardSize := len(flat) / numShards
	if len(flat)%numShards != 0 {
		return nil, fmt.Errorf("unexpected output size %d is not divisible by %d shards", len(flat), numShards)
	}
	shards := make([][]byte, numShards)
	for i := 0; i < numShards; i++ {
		shardCopy := make([]byte, shardSize)
		copy(shardCopy, flat[i*shardSize:(i+1)*shardSize])
		shards[i] = shardCopy
	}
	return shards, nil
}

func EncodeData(data []byte, dataShards, parityShards int) ([]byte, error) {
	if len(data) == 0 {
		return nil, errors.New("input data is empty")
	}
	if dataShards <= 0 || parityShards < 0 {
		return nil, errors.New("bad shard parameters")
	}
	unit := 2 * dataShards
	padded := (len(data) + unit - 1) / unit * unit
	buf := make([]byte, padded)
	copy(buf, data)
	k := padded / unit // number of 2-byte chunks per shard
	shardSize := 2 * k
	n := dataShards + parityShards
	out := make([]byte, n*shardSize)
	// chunk-major input: chunk j consists of dataShards 2-byte symbols
	for j := 0; j < k; j++ {
		for s := 0; s < dataShards; s++ {
			src := (j*dataShards + s) * 2
			dst := s*shardSize + j*2
			out[dst], out[dst+1] = buf[src], buf[src+1]
		}
		for p := 0; p < parityShards; p++ {
			var a, b byte
			for s := 0; s < dataShards; s++ {
				src := (j*dataShards + s) * 2
				a ^= buf[src] + byte(p*s)
				b ^= buf[src+1] + byte(p+s)
			}
			dst := (dataShards+p)*shardSize + j*2
			out[dst], out[dst+1] = a, b
		}
	}
	return out, nil
}

type Shard struct {
	Index int
	Data  [2]byte
}

func DecodeShards(flatten []byte, indices []int, dataShards, parityShards, shardSize int) ([]byte, error) {
	if len(flatten) == 0 || len(indices) == 0 {
		return nil, errors.New("no shards provided")
	}
	if shardSize <= 0 || len(flatten)%shardSize != 0 {
		return nil, fmt.Errorf("flatten data length %d not divisible by shardSize %d", len(flatten), shardSize)
	}
	if len(flatten)/shardSize != len(indices) {
		return nil, errors.New("shard/index count mismatch")
	}
	have := make(map[int][]byte)
	for i, idx := range indices {
		have[idx] = flatten[i*shardSize : (i+1)*shardSize]
	}
	k := shardSize / 2
	out := make([]byte, dataShards*shardSize)
	for s := 0; s < dataShards; s++ {
		sh, ok := have[s]
		if !ok {
			return nil, errors.New("erasure stand-in: can only decode from data shards")
		}
		for j := 0; j < k; j++ {
			dst := (j*dataShards + s) * 2
			out[dst], out[dst+1] = sh[j*2], sh[j*2+1]
		}
	}
	return out, nil
}
