//! STAND-IN for `reed-solomon-simd` 3.x — /verif check C30 only.
//!
//! The real crate cannot be fetched offline, so the repository's
//! `reed-solomon-ffi/src/lib.rs` is compiled against this crate instead. It
//! exposes exactly the API items that `lib.rs` uses
//!
//!   ReedSolomonEncoder::{new, add_original_shard, encode}
//!   EncoderResult::recovery_iter            (Item = &[u8])
//!   ReedSolomonDecoder::{new, add_original_shard, add_recovery_shard, decode}
//!   DecoderResult::restored_original_iter   (Item = (usize, &[u8]))
//!   Error
//!
//! (plus a few harmless companions: `supports`, `recovery`, `restored_original`)
//! with the same signatures and the same *documented* error behaviour as the real
//! crate (duplicate / out-of-range index, wrong shard size, too many / too few
//! original shards, not enough shards, unsupported shard count, odd shard size).
//!
//! The code itself is NOT the real crate's code and does NOT produce the same
//! parity bytes: it is a systematic MDS Reed–Solomon code over GF(2^16)
//! (primitive polynomial x^16+x^12+x^3+x+1) built by Lagrange interpolation on
//! the evaluation points 0..n-1: the `original_count` data symbols are the values
//! of the unique polynomial of degree < original_count at the points
//! 0..original_count-1, recovery shard j is its value at original_count+j. Any
//! `original_count` distinct shards therefore determine the data (MDS), which is
//! the only property of the codec that check C30 relies on. A shard of
//! `shard_bytes` bytes is `shard_bytes/2` independent little-endian 16-bit symbols.
//!
//! Consequently C30 says nothing about the codec arithmetic (field, basis, the
//! published test vectors' parity bytes); those are outside its claim.

use std::cell::RefCell;
use std::collections::HashMap;
use std::fmt;
use std::sync::{Arc, Mutex, OnceLock};

/// Size of the field.
pub const GF_ORDER: usize = 65536;
const GF_MODULUS: usize = 65535;
const GF_POLY: u32 = 0x1100B;

// ---------------------------------------------------------------------------
// Error (same variants as the real crate)

#[derive(Clone, Copy, Debug, PartialEq, Eq)]
pub enum Error {
    DifferentShardSize { shard_bytes: usize, got: usize },
    DuplicateOriginalShardIndex { index: usize },
    DuplicateRecoveryShardIndex { index: usize },
    InvalidOriginalShardIndex { original_count: usize, index: usize },
    InvalidRecoveryShardIndex { recovery_count: usize, index: usize },
    InvalidShardSize { shard_bytes: usize },
    NotEnoughShards { original_count: usize, original_received_count: usize, recovery_received_count: usize },
    TooFewOriginalShards { original_count: usize, original_received_count: usize },
    TooManyOriginalShards { original_count: usize },
    UnsupportedShardCount { original_count: usize, recovery_count: usize },
}

impl fmt::Display for Error {
    fn fmt(&self, f: &mut fmt::Formatter<'_>) -> fmt::Result {
        write!(f, "{:?}", self)
    }
}

impl std::error::Error for Error {}

// ---------------------------------------------------------------------------
// GF(2^16)

struct Tables {
    exp: Vec<u16>, // 2*GF_MODULUS entries: exp[i] = g^i
    log: Vec<u16>, // log[0] unused
}

fn tables() -> &'static Tables {
    static T: OnceLock<Tables> = OnceLock::new();
    T.get_or_init(|| {
        let mut exp = vec![0u16; 2 * GF_MODULUS];
        let mut log = vec![0u16; GF_ORDER];
        let mut x: u32 = 1;
        for i in 0..GF_MODULUS {
            if i > 0 && x == 1 {
                panic!("GF_POLY is not primitive");
            }
            exp[i] = x as u16;
            exp[i + GF_MODULUS] = x as u16;
            log[x as usize] = i as u16;
            x <<= 1;
            if x & 0x10000 != 0 {
                x ^= GF_POLY;
            }
        }
        if x != 1 {
            panic!("GF_POLY is not primitive");
        }
        Tables { exp, log }
    })
}

#[inline]
fn gf_mul(t: &Tables, a: u16, b: u16) -> u16 {
    if a == 0 || b == 0 {
        return 0;
    }
    t.exp[t.log[a as usize] as usize + t.log[b as usize] as usize]
}

#[inline]
fn gf_inv(t: &Tables, a: u16) -> u16 {
    assert!(a != 0, "inverse of zero");
    t.exp[GF_MODULUS - t.log[a as usize] as usize]
}

/// Lagrange coefficient matrix: for interpolation nodes `xs` (distinct) and
/// target points `targets` (each distinct from every node) returns the row-major
/// `targets.len() x xs.len()` matrix c with  p(target_r) = XOR_i c[r][i]*p(xs[i])
/// for every polynomial p of degree < xs.len().
fn lagrange_matrix(xs: &[u16], targets: &[u16]) -> Vec<u16> {
    let t = tables();
    let k = xs.len();
    // barycentric weights w_i = 1 / prod_{j != i} (x_i - x_j)
    let mut w = vec![0u16; k];
    for i in 0..k {
        let mut p: u16 = 1;
        for j in 0..k {
            if j != i {
                p = gf_mul(t, p, xs[i] ^ xs[j]);
            }
        }
        w[i] = gf_inv(t, p);
    }
    let mut m = vec![0u16; targets.len() * k];
    for (r, &x) in targets.iter().enumerate() {
        let mut l: u16 = 1;
        for &xj in xs {
            l = gf_mul(t, l, x ^ xj);
        }
        for i in 0..k {
            let c = gf_mul(t, gf_mul(t, l, w[i]), gf_inv(t, x ^ xs[i]));
            m[r * k + i] = c;
        }
    }
    m
}

fn supports(original_count: usize, recovery_count: usize) -> bool {
    // same domain as the real crate's DefaultRate (HighRate || LowRate)
    if original_count == 0 || recovery_count == 0 || original_count >= GF_ORDER || recovery_count >= GF_ORDER {
        return false;
    }
    original_count.next_power_of_two() + recovery_count <= GF_ORDER
        || original_count + recovery_count.next_power_of_two() <= GF_ORDER
}

fn check_params(original_count: usize, recovery_count: usize, shard_bytes: usize) -> Result<(), Error> {
    if !supports(original_count, recovery_count) {
        return Err(Error::UnsupportedShardCount { original_count, recovery_count });
    }
    if shard_bytes == 0 || shard_bytes % 2 != 0 {
        return Err(Error::InvalidShardSize { shard_bytes });
    }
    Ok(())
}

fn encode_matrix(k: usize, r: usize) -> Arc<Vec<u16>> {
    static CACHE: OnceLock<Mutex<HashMap<(usize, usize), Arc<Vec<u16>>>>> = OnceLock::new();
    let cache = CACHE.get_or_init(|| Mutex::new(HashMap::new()));
    let mut g = cache.lock().unwrap();
    if let Some(m) = g.get(&(k, r)) {
        return m.clone();
    }
    let xs: Vec<u16> = (0..k).map(|i| i as u16).collect();
    let ts: Vec<u16> = (k..k + r).map(|i| i as u16).collect();
    let m = Arc::new(lagrange_matrix(&xs, &ts));
    if g.len() > 16 {
        g.clear();
    }
    g.insert((k, r), m.clone());
    m
}

// ---------------------------------------------------------------------------
// Encoder

pub struct ReedSolomonEncoder {
    original_count: usize,
    recovery_count: usize,
    shard_bytes: usize,
    originals: Vec<u8>,
    received: usize,
    recovery: Vec<u8>,
}

impl ReedSolomonEncoder {
    pub fn new(original_count: usize, recovery_count: usize, shard_bytes: usize) -> Result<Self, Error> {
        check_params(original_count, recovery_count, shard_bytes)?;
        Ok(Self {
            original_count,
            recovery_count,
            shard_bytes,
            originals: vec![0u8; original_count * shard_bytes],
            received: 0,
            recovery: Vec::new(),
        })
    }

    pub fn supports(original_count: usize, recovery_count: usize) -> bool {
        supports(original_count, recovery_count)
    }

    pub fn add_original_shard<T: AsRef<[u8]>>(&mut self, original_shard: T) -> Result<(), Error> {
        let s = original_shard.as_ref();
        if self.received == self.original_count {
            return Err(Error::TooManyOriginalShards { original_count: self.original_count });
        }
        if s.len() != self.shard_bytes {
            return Err(Error::DifferentShardSize { shard_bytes: self.shard_bytes, got: s.len() });
        }
        let o = self.received * self.shard_bytes;
        self.originals[o..o + self.shard_bytes].copy_from_slice(s);
        self.received += 1;
        Ok(())
    }

    pub fn encode(&mut self) -> Result<EncoderResult<'_>, Error> {
        if self.received != self.original_count {
            return Err(Error::TooFewOriginalShards {
                original_count: self.original_count,
                original_received_count: self.received,
            });
        }
        let (k, r, sb) = (self.original_count, self.recovery_count, self.shard_bytes);
        let t = tables();
        let m = encode_matrix(k, r);
        let syms = sb / 2;
        self.recovery = vec![0u8; r * sb];
        for pos in 0..syms {
            let ys: Vec<u16> = (0..k)
                .map(|i| u16::from_le_bytes([self.originals[i * sb + 2 * pos], self.originals[i * sb + 2 * pos + 1]]))
                .collect();
            for j in 0..r {
                let row = &m[j * k..(j + 1) * k];
                let mut acc: u16 = 0;
                for i in 0..k {
                    acc ^= gf_mul(t, row[i], ys[i]);
                }
                let b = acc.to_le_bytes();
                self.recovery[j * sb + 2 * pos] = b[0];
                self.recovery[j * sb + 2 * pos + 1] = b[1];
            }
        }
        Ok(EncoderResult { enc: self })
    }

    fn reset_received(&mut self) {
        self.received = 0;
    }
}

pub struct EncoderResult<'a> {
    enc: &'a mut ReedSolomonEncoder,
}

impl<'a> EncoderResult<'a> {
    pub fn recovery(&self, index: usize) -> Option<&[u8]> {
        if index < self.enc.recovery_count {
            let sb = self.enc.shard_bytes;
            Some(&self.enc.recovery[index * sb..(index + 1) * sb])
        } else {
            None
        }
    }

    pub fn recovery_iter(&self) -> Recovery<'_> {
        Recovery { chunks: self.enc.recovery.chunks_exact(self.enc.shard_bytes) }
    }
}

impl<'a> Drop for EncoderResult<'a> {
    fn drop(&mut self) {
        self.enc.reset_received();
    }
}

pub struct Recovery<'a> {
    chunks: std::slice::ChunksExact<'a, u8>,
}

impl<'a> Iterator for Recovery<'a> {
    type Item = &'a [u8];
    fn next(&mut self) -> Option<&'a [u8]> {
        self.chunks.next()
    }
}

// ---------------------------------------------------------------------------
// Decoder

pub struct ReedSolomonDecoder {
    original_count: usize,
    recovery_count: usize,
    shard_bytes: usize,
    originals: Vec<Option<Vec<u8>>>,
    recoveries: Vec<Option<Vec<u8>>>,
    original_received: usize,
    recovery_received: usize,
    restored: Vec<(usize, Vec<u8>)>,
}

thread_local! {
    // last decode matrix: (original_count, nodes, targets) -> matrix
    static DEC_CACHE: RefCell<Option<(Vec<u16>, Vec<u16>, Arc<Vec<u16>>)>> = const { RefCell::new(None) };
}

fn decode_matrix(xs: &[u16], targets: &[u16]) -> Arc<Vec<u16>> {
    DEC_CACHE.with(|c| {
        let mut c = c.borrow_mut();
        if let Some((cx, ct, m)) = c.as_ref() {
            if cx.as_slice() == xs && ct.as_slice() == targets {
                return m.clone();
            }
        }
        let m = Arc::new(lagrange_matrix(xs, targets));
        *c = Some((xs.to_vec(), targets.to_vec(), m.clone()));
        m
    })
}

impl ReedSolomonDecoder {
    pub fn new(original_count: usize, recovery_count: usize, shard_bytes: usize) -> Result<Self, Error> {
        check_params(original_count, recovery_count, shard_bytes)?;
        Ok(Self {
            original_count,
            recovery_count,
            shard_bytes,
            originals: vec![None; original_count],
            recoveries: vec![None; recovery_count],
            original_received: 0,
            recovery_received: 0,
            restored: Vec::new(),
        })
    }

    pub fn supports(original_count: usize, recovery_count: usize) -> bool {
        supports(original_count, recovery_count)
    }

    pub fn add_original_shard<T: AsRef<[u8]>>(&mut self, index: usize, original_shard: T) -> Result<(), Error> {
        let s = original_shard.as_ref();
        if index >= self.original_count {
            return Err(Error::InvalidOriginalShardIndex { original_count: self.original_count, index });
        }
        if self.originals[index].is_some() {
            return Err(Error::DuplicateOriginalShardIndex { index });
        }
        if s.len() != self.shard_bytes {
            return Err(Error::DifferentShardSize { shard_bytes: self.shard_bytes, got: s.len() });
        }
        self.originals[index] = Some(s.to_vec());
        self.original_received += 1;
        Ok(())
    }

    pub fn add_recovery_shard<T: AsRef<[u8]>>(&mut self, index: usize, recovery_shard: T) -> Result<(), Error> {
        let s = recovery_shard.as_ref();
        if index >= self.recovery_count {
            return Err(Error::InvalidRecoveryShardIndex { recovery_count: self.recovery_count, index });
        }
        if self.recoveries[index].is_some() {
            return Err(Error::DuplicateRecoveryShardIndex { index });
        }
        if s.len() != self.shard_bytes {
            return Err(Error::DifferentShardSize { shard_bytes: self.shard_bytes, got: s.len() });
        }
        self.recoveries[index] = Some(s.to_vec());
        self.recovery_received += 1;
        Ok(())
    }

    pub fn decode(&mut self) -> Result<DecoderResult<'_>, Error> {
        let k = self.original_count;
        if self.original_received + self.recovery_received < k {
            return Err(Error::NotEnoughShards {
                original_count: k,
                original_received_count: self.original_received,
                recovery_received_count: self.recovery_received,
            });
        }
        self.restored.clear();
        if self.original_received == k {
            return Ok(DecoderResult { dec: self });
        }
        // interpolation nodes: every received original, then the lowest-index
        // received recovery shards until k nodes are collected
        let sb = self.shard_bytes;
        let mut xs: Vec<u16> = Vec::with_capacity(k);
        let mut src: Vec<&[u8]> = Vec::with_capacity(k);
        let mut missing: Vec<u16> = Vec::new();
        for (i, o) in self.originals.iter().enumerate() {
            match o {
                Some(v) => {
                    xs.push(i as u16);
                    src.push(v.as_slice());
                }
                None => missing.push(i as u16),
            }
        }
        for (j, r) in self.recoveries.iter().enumerate() {
            if xs.len() == k {
                break;
            }
            if let Some(v) = r {
                xs.push((k + j) as u16);
                src.push(v.as_slice());
            }
        }
        debug_assert_eq!(xs.len(), k);
        let t = tables();
        let m = decode_matrix(&xs, &missing);
        let syms = sb / 2;
        let mut out: Vec<(usize, Vec<u8>)> = missing.iter().map(|&i| (i as usize, vec![0u8; sb])).collect();
        for pos in 0..syms {
            let ys: Vec<u16> = src.iter().map(|s| u16::from_le_bytes([s[2 * pos], s[2 * pos + 1]])).collect();
            for (r, o) in out.iter_mut().enumerate() {
                let row = &m[r * k..(r + 1) * k];
                let mut acc: u16 = 0;
                for i in 0..k {
                    acc ^= gf_mul(t, row[i], ys[i]);
                }
                let b = acc.to_le_bytes();
                o.1[2 * pos] = b[0];
                o.1[2 * pos + 1] = b[1];
            }
        }
        self.restored = out;
        Ok(DecoderResult { dec: self })
    }

    fn reset_received(&mut self) {
        for o in self.originals.iter_mut() {
            *o = None;
        }
        for r in self.recoveries.iter_mut() {
            *r = None;
        }
        self.original_received = 0;
        self.recovery_received = 0;
    }
}

pub struct DecoderResult<'a> {
    dec: &'a mut ReedSolomonDecoder,
}

impl<'a> DecoderResult<'a> {
    /// Restored original shard `index`, or None if it was provided by the caller
    /// (not restored) or out of range.
    pub fn restored_original(&self, index: usize) -> Option<&[u8]> {
        self.dec.restored.iter().find(|(i, _)| *i == index).map(|(_, v)| v.as_slice())
    }

    /// Iterator over the restored (i.e. previously missing) original shards,
    /// ascending by index.
    pub fn restored_original_iter(&self) -> RestoredOriginal<'_> {
        RestoredOriginal { it: self.dec.restored.iter() }
    }
}

impl<'a> Drop for DecoderResult<'a> {
    fn drop(&mut self) {
        self.dec.reset_received();
    }
}

pub struct RestoredOriginal<'a> {
    it: std::slice::Iter<'a, (usize, Vec<u8>)>,
}

impl<'a> Iterator for RestoredOriginal<'a> {
    type Item = (usize, &'a [u8]);
    fn next(&mut self) -> Option<(usize, &'a [u8])> {
        self.it.next().map(|(i, v)| (*i, v.as_slice()))
    }
}

// ---------------------------------------------------------------------------
// Self-tests of the stand-in (run by hand:
//   CARGO_TARGET_DIR=/verif/.build/c30rs-stubtest cargo test --offline --release
// in this directory). They check the MDS property the C30 harness relies on.

#[cfg(test)]
mod tests {
    use super::*;

    fn xorshift(s: &mut u64) -> u64 {
        *s ^= *s << 13;
        *s ^= *s >> 7;
        *s ^= *s << 17;
        *s
    }

    fn encode_all(k: usize, r: usize, sb: usize, data: &[Vec<u8>]) -> Vec<Vec<u8>> {
        let mut e = ReedSolomonEncoder::new(k, r, sb).unwrap();
        for d in data {
            e.add_original_shard(d).unwrap();
        }
        let res = e.encode().unwrap();
        let mut all: Vec<Vec<u8>> = data.to_vec();
        for s in res.recovery_iter() {
            all.push(s.to_vec());
        }
        assert_eq!(all.len(), k + r);
        all
    }

    fn decode_from(k: usize, r: usize, sb: usize, all: &[Vec<u8>], subset: &[usize]) -> Vec<Vec<u8>> {
        let mut d = ReedSolomonDecoder::new(k, r, sb).unwrap();
        let mut have: Vec<Option<Vec<u8>>> = vec![None; k];
        for &i in subset {
            if i < k {
                d.add_original_shard(i, &all[i]).unwrap();
                have[i] = Some(all[i].clone());
            } else {
                d.add_recovery_shard(i - k, &all[i]).unwrap();
            }
        }
        let res = d.decode().unwrap();
        for (i, s) in res.restored_original_iter() {
            assert!(have[i].is_none());
            have[i] = Some(s.to_vec());
        }
        have.into_iter().map(|o| o.unwrap()).collect()
    }

    #[test]
    fn field_axioms_sample() {
        let t = tables();
        let mut s = 7u64;
        for _ in 0..20000 {
            let a = xorshift(&mut s) as u16;
            let b = xorshift(&mut s) as u16;
            let c = xorshift(&mut s) as u16;
            assert_eq!(gf_mul(t, a, b), gf_mul(t, b, a));
            assert_eq!(gf_mul(t, a, gf_mul(t, b, c)), gf_mul(t, gf_mul(t, a, b), c));
            assert_eq!(gf_mul(t, a, b ^ c), gf_mul(t, a, b) ^ gf_mul(t, a, c));
            if a != 0 {
                assert_eq!(gf_mul(t, a, gf_inv(t, a)), 1);
            }
        }
    }

    #[test]
    fn tiny_every_subset() {
        let (k, r, sb) = (2usize, 4usize, 6usize);
        let mut s = 99u64;
        for _ in 0..200 {
            let data: Vec<Vec<u8>> = (0..k).map(|_| (0..sb).map(|_| xorshift(&mut s) as u8).collect()).collect();
            let all = encode_all(k, r, sb, &data);
            for a in 0..k + r {
                for b in 0..k + r {
                    if a != b {
                        assert_eq!(decode_from(k, r, sb, &all, &[a, b]), data);
                    }
                }
            }
        }
    }

    #[test]
    fn small_every_subset() {
        let (k, r, sb) = (3usize, 4usize, 2usize);
        let mut s = 5u64;
        for _ in 0..50 {
            let data: Vec<Vec<u8>> = (0..k).map(|_| (0..sb).map(|_| xorshift(&mut s) as u8).collect()).collect();
            let all = encode_all(k, r, sb, &data);
            let n = k + r;
            for mask in 0u32..(1 << n) {
                if mask.count_ones() as usize != k {
                    continue;
                }
                let sub: Vec<usize> = (0..n).filter(|i| mask & (1 << i) != 0).collect();
                assert_eq!(decode_from(k, r, sb, &all, &sub), data);
            }
        }
    }

    #[test]
    fn full_random_subsets() {
        let (k, r, sb) = (342usize, 681usize, 2usize);
        let mut s = 1234u64;
        let data: Vec<Vec<u8>> = (0..k).map(|_| (0..sb).map(|_| xorshift(&mut s) as u8).collect()).collect();
        let all = encode_all(k, r, sb, &data);
        for round in 0..6 {
            let mut idx: Vec<usize> = (0..k + r).collect();
            for i in (1..idx.len()).rev() {
                let j = (xorshift(&mut s) % (i as u64 + 1)) as usize;
                idx.swap(i, j);
            }
            let sub: Vec<usize> = match round {
                0 => (k..2 * k).collect(),
                1 => (r..k + r).collect(),
                _ => idx[..k].to_vec(),
            };
            assert_eq!(decode_from(k, r, sb, &all, &sub), data);
        }
    }

    #[test]
    fn errors() {
        assert!(ReedSolomonEncoder::new(0, 4, 2).is_err());
        assert!(ReedSolomonEncoder::new(2, 0, 2).is_err());
        assert!(ReedSolomonEncoder::new(2, 4, 3).is_err());
        assert!(ReedSolomonEncoder::new(2, 4, 0).is_err());
        assert!(ReedSolomonEncoder::new(40000, 40000, 2).is_err());
        let mut e = ReedSolomonEncoder::new(2, 4, 2).unwrap();
        assert!(e.add_original_shard([1u8, 2, 3]).is_err());
        e.add_original_shard([1u8, 2]).unwrap();
        assert!(e.encode().is_err());
        e.add_original_shard([3u8, 4]).unwrap();
        assert!(e.add_original_shard([5u8, 6]).is_err());
        let mut d = ReedSolomonDecoder::new(2, 4, 2).unwrap();
        assert!(d.add_original_shard(2, [0u8, 0]).is_err());
        assert!(d.add_recovery_shard(4, [0u8, 0]).is_err());
        d.add_recovery_shard(3, [0u8, 0]).unwrap();
        assert!(d.add_recovery_shard(3, [0u8, 0]).is_err());
        assert!(d.decode().is_err());
        d.add_original_shard(1, [0u8, 0]).unwrap();
        assert!(d.add_original_shard(1, [0u8, 0]).is_err());
        assert!(d.decode().is_ok());
    }
}
