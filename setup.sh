#!/bin/bash
# Offline setup: nothing to fetch. Verifies the toolchain and warms the Go build
# cache by compiling the shared kit and one harness against /repo's current tree.
set -e
cd "$(dirname "$0")"
chmod +x check
export GOFLAGS=-mod=mod GOPROXY=off GOTOOLCHAIN=auto
(cd /repo && go version)
python3 tools/gen_manifest.py >/dev/null
python3 - <<'PY'
import json,subprocess,sys
sys.path.insert(0,'.')
PY
exit 0
